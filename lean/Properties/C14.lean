/-
  C14 — Routes on a street network are fastest paths.

  "On a street-graph network, the part of a route that runs from the end of the origin link to the
   start of the destination link has the minimum total travel time among all paths between those
   two junctions in the graph."

  The graph search is `networkx.astar_path` with a heuristic supplied by the repository. The
  search itself is not modelled; every junction path the implementation returns is accepted by
  `Hive.Router.certPath` only together with node potentials (earliest arrival times, computed by
  the harness in exact arithmetic), and `cert_fastest` proves - for every link table, potentials
  and pair of junctions - that an accepted path is at most `slack` slower than any junction walk
  between the two junctions. (`slack` absorbs the rounding of the implementation's float sums:
  1e-9 of the travel time.)
-/
import Hive.Router
import Mathlib.Tactic.Linarith
import Mathlib.Algebra.Order.Field.Rat

namespace Hive
namespace C14
open Router

theorem byNodes_mem {net : Net} {a b : Nat} {l : NLink} (h : net.byNodes a b = some l) : l ∈ net ∧ l.u = a ∧ l.v = b := by
  unfold Net.byNodes at h
  have h1 := List.mem_of_find?_eq_some h
  have h2 := List.find?_some h
  simp only [Bool.and_eq_true, beq_iff_eq] at h2
  exact ⟨h1, h2.1, h2.2⟩

/-- potentials that no link beats bound every walk from below -/
theorem potential_bound {net : Net} {pot : Nat → Rat} (hp : ∀ l ∈ net, pot l.v ≤ pot l.u + l.time) :
    ∀ (q : List Nat) (t : Rat) (a b : Nat), q.head? = some a → q.getLast? = some b → walkTime net q = some t →
      pot b - pot a ≤ t := by
  intro q
  induction q with
  | nil => intro t a b h; simp at h
  | cons x rest ih =>
    intro t a b ha hb ht
    simp only [List.head?_cons, Option.some.injEq] at ha
    subst ha
    cases rest with
    | nil =>
      simp only [List.getLast?_singleton, Option.some.injEq] at hb
      subst hb
      simp only [walkTime, Option.some.injEq] at ht
      subst ht
      simp
    | cons y rest2 =>
      simp only [walkTime] at ht
      split at ht
      · next l t' hl ht' =>
        cases ht
        obtain ⟨hm, hu, hv⟩ := byNodes_mem hl
        rw [List.getLast?_cons_cons] at hb
        have h1 := ih t' y b rfl hb ht'
        have h2 := hp l hm
        rw [hu, hv] at h2
        linarith
      · cases ht

/-- **an accepted junction path is a fastest path (up to `slack`)** -/
theorem cert_fastest (net : Net) (pot : Nat → Rat) (src dst : Nat) (path : List Nat) (slack : Rat)
    (h : certPath net pot src dst path slack = true) :
    ∃ t0, walkTime net path = some t0 ∧ path.head? = some src ∧ path.getLast? = some dst ∧
      ∀ (q : List Nat) (t : Rat), q.head? = some src → q.getLast? = some dst → walkTime net q = some t →
        t0 ≤ t + slack := by
  unfold certPath at h
  simp only [Bool.and_eq_true, beq_iff_eq, List.all_eq_true, decide_eq_true_eq] at h
  obtain ⟨⟨⟨⟨h0, hp⟩, hh⟩, hl⟩, ht⟩ := h
  split at ht
  · next t0 ht0 =>
    refine ⟨t0, ht0, hh, hl, ?_⟩
    intro q t hq1 hq2 hqt
    have hb := potential_bound hp q t src dst hq1 hq2 hqt
    have : t0 ≤ pot dst + slack := by simpa using ht
    rw [h0] at hb
    linarith
  · cases ht

/-! ### not vacuous: the direct street is slower than the detour, and the certificate knows -/

example :
    let net : Net := [⟨0, 1, ⟨10, 100, 101, 1, 10⟩, 360⟩, ⟨0, 2, ⟨11, 100, 102, 1, 100⟩, 36⟩,
                      ⟨2, 1, ⟨12, 102, 101, 1, 100⟩, 36⟩, ⟨1, 0, ⟨13, 101, 100, 1, 10⟩, 360⟩]
    let pot : Nat → Rat := fun n => if n = 0 then 0 else if n = 2 then 36 else 72
    certPath net pot 0 1 [0, 2, 1] 0 = true ∧ certPath net pot 0 1 [0, 1] 0 = false := by
  decide +kernel

end C14
end Hive
