/-
  C01 — the control step does not depend on the hand-out order of the entity maps.

  The relational walk that `Properties/C01.lean` and `C01Prims.lean` list as missing, for the
  control model: `PermW w w'` (the same entities, applied instructions and event log, indexes that
  register the same ids under the same cells; every map and set handed out in a different order;
  unique ids) is
  preserved, with the same outcome kind at every call, by every function of the control model -
  the state primitives, `apply_new_vehicle_state`, `pick_up_trip`, `drop_off_trip`,
  `exit` and `enter` of every activity, `transition_previous_to_next`, `move`, `charge`,
  `_perform_update`, `default_update`, `step_vehicle`, both passes of `apply_instructions`, and
  `perform_vehicle_state_updates` with its partition and two sorts. Consequences:

  * `control_run_order_independent`: from two hand-out orders of one initial state, any number of
    steps (any instruction lists, vehicle updates, tick) lead to two hand-out orders of one state
    and to *identical* event logs;
  * `observations_agree`: related worlds answer every lookup by id with the same record - so
    the canonical per-step view of the run (entities by id, events) is the same for every hash seed.

  Holds for every environment (`Env` is universally quantified: physics, router, geometry).
  Not covered here (C01 stays PARTIAL): the pre-step phases (admission, cancellation, price update, driver phase
  sort by id: `id_order_invariant`, `driver_order_invariant`), the instruction generators, rankings
  and reporters, which are decided by the hash-seed runs.
-/
import Properties.C01Prims

namespace Hive
namespace C01

/-! ### relations on outcomes -/

/-- outcomes of the same kind, successful ones related by `R` -/
def ORel {α β : Type} (R : α → β → Prop) : Outcome α → Outcome β → Prop
  | .ok a, .ok b => R a b
  | .rejected, .rejected => True
  | .error, .error => True
  | _, _ => False

theorem ORel.bind {α α' β β' : Type} {R : α → α' → Prop} {Q : β → β' → Prop}
    {x : Outcome α} {y : Outcome α'} {f : α → Outcome β} {g : α' → Outcome β'} (hxy : ORel R x y)
    (h : ∀ a b, R a b → ORel Q (f a) (g b)) : ORel Q (x >>= f) (y >>= g) := by
  cases x <;> cases y <;> first | exact hxy.elim | trivial | skip
  exact h _ _ hxy

theorem ORel.bind_same {γ β β' : Type} {Q : β → β' → Prop} (x : Outcome γ) {f : γ → Outcome β} {g : γ → Outcome β'}
    (h : ∀ c, ORel Q (f c) (g c)) : ORel Q (x >>= f) (x >>= g) := by
  cases x with
  | ok c => exact h c
  | rejected => trivial
  | error => trivial

theorem ite_rel {α β : Type} {R : α → β → Prop} {c : Prop} [Decidable c] {a b : α} {a' b' : β}
    (h1 : c → R a a') (h2 : ¬c → R b b') : R (if c then a else b) (if c then a' else b') := by
  by_cases hc : c
  · simp only [hc, if_true]; exact h1 hc
  · simp only [hc, if_false]; exact h2 hc

/-- the same entities in two hand-out orders, ids unique -/
def PermU (s s' : Sim) : Prop := PermEnt s s' ∧ UniqueIds s

/-- worlds: related states, the same event log -/
def PermW (w w' : World) : Prop := PermU w.sim w'.sim ∧ w.log = w'.log

theorem map_key_replaceById {α : Type} (key : α → Nat) (xs : List α) (x : α) :
    (replaceById key xs x).map key = xs.map key := by
  unfold replaceById
  rw [List.map_map]
  apply List.map_congr_left
  intro y _
  simp only [Function.comp]
  split
  · next hk => exact (by simpa using hk : key y = key x).symm
  · rfl

section
variable (env : Env) {s s' : Sim}

theorem modifyStation_permU (h : PermU s s') (st : Station) :
    ORel PermU (s.modifyStation env st) (s'.modifyStation env st) := by
  obtain ⟨h, hu⟩ := h
  unfold Sim.modifyStation
  rw [← h.station? hu st.id]
  cases s.station? st.id with
  | none => trivial
  | some old =>
    simp only
    refine ite_rel (fun _ => trivial) (fun _ => ite_rel (fun _ => trivial) (fun _ => ?_))
    exact ⟨{ h with stations := replaceById_perm Station.id h.stations st },
      { hu with stations := by simp only [map_key_replaceById]; exact hu.stations }⟩

theorem modifyBase_permU (h : PermU s s') (b : Base) :
    ORel PermU (s.modifyBase env b) (s'.modifyBase env b) := by
  obtain ⟨h, hu⟩ := h
  unfold Sim.modifyBase
  rw [← h.base? hu b.id]
  cases s.base? b.id with
  | none => trivial
  | some old =>
    simp only
    refine ite_rel (fun _ => trivial) (fun _ => ite_rel (fun _ => trivial) (fun _ => ?_))
    exact ⟨{ h with bases := replaceById_perm Base.id h.bases b },
      { hu with bases := by simp only [map_key_replaceById]; exact hu.bases }⟩

theorem modifyVehicle_permU (h : PermU s s') (v : Vehicle) :
    ORel PermU (s.modifyVehicle env v) (s'.modifyVehicle env v) := by
  obtain ⟨h, hu⟩ := h
  unfold Sim.modifyVehicle
  rw [← h.vehicle? hu v.id]
  cases s.vehicle? v.id with
  | none => trivial
  | some old =>
    simp only
    refine ite_rel (fun _ => trivial) (fun _ => ?_)
    have hm := index_move_eqv env.parent h.vIdx old.pos.cell v.pos.cell v.id
    cases hx : Index.move env.parent s.vIdx old.pos.cell v.pos.cell v.id <;>
      cases hy : Index.move env.parent s'.vIdx old.pos.cell v.pos.cell v.id <;>
      rw [hx, hy] at hm <;> first | exact hm.elim | trivial | skip
    exact ⟨{ h with vehicles := replaceById_perm Vehicle.id h.vehicles v, vIdx := hm },
      { hu with vehicles := by simp only [map_key_replaceById]; exact hu.vehicles }⟩

theorem modifyRequest_permU (h : PermU s s') (r : Request) :
    ORel PermU (s.modifyRequest env r) (s'.modifyRequest env r) := by
  obtain ⟨h, hu⟩ := h
  unfold Sim.modifyRequest
  rw [← h.request? hu r.id]
  cases s.request? r.id with
  | none => trivial
  | some old =>
    simp only
    refine ite_rel (fun _ => trivial) (fun _ => ite_rel (fun _ => trivial) (fun _ => ?_))
    have hm := index_move_eqv env.parent h.rIdx old.pos.cell r.pos.cell r.id
    cases hx : Index.move env.parent s.rIdx old.pos.cell r.pos.cell r.id <;>
      cases hy : Index.move env.parent s'.rIdx old.pos.cell r.pos.cell r.id <;>
      rw [hx, hy] at hm <;> first | exact hm.elim | trivial | skip
    exact ⟨{ h with requests := replaceById_perm Request.id h.requests r, rIdx := hm },
      { hu with requests := by simp only [map_key_replaceById]; exact hu.requests }⟩

theorem removeRequest_permU (h : PermU s s') (i : RequestId) :
    ORel PermU (s.removeRequest env i) (s'.removeRequest env i) := by
  obtain ⟨h, hu⟩ := h
  unfold Sim.removeRequest
  rw [← h.request? hu i]
  cases s.request? i with
  | none => trivial
  | some old =>
    simp only
    have hm := index_remove_eqv env.parent h.rIdx old.pos.cell i
    cases hx : Index.remove env.parent s.rIdx old.pos.cell i <;>
      cases hy : Index.remove env.parent s'.rIdx old.pos.cell i <;>
      rw [hx, hy] at hm <;> first | exact hm.elim | trivial | skip
    exact ⟨{ h with requests := removeById_perm Request.id h.requests i, rIdx := hm },
      { hu with requests := List.Nodup.sublist (List.Sublist.map _ List.filter_sublist) hu.requests }⟩

theorem applyAct_permU (h : PermU s s') (v : VehicleId) (a : Act) :
    ORel PermU (applyAct env s v a) (applyAct env s' v a) := by
  unfold applyAct
  rw [← h.1.vehicle? h.2 v]
  cases s.vehicle? v with
  | none => trivial
  | some veh => exact modifyVehicle_permU env h _

/-- **`VehicleState.exit`** -/
theorem exit_permU (h : PermU s s') (v : VehicleId) (a : Act) :
    ORel PermU (exit env s v a) (exit env s' v a) := by
  have hl := h.1
  have hu := h.2
  cases a with
  | idle _ => exact h
  | repositioning _ => exact h
  | outOfService => exact h
  | dispatchStation _ _ _ => exact h
  | dispatchBase _ _ => exact h
  | reserveBase b =>
    simp only [exit, ← hl.base? hu]
    cases s.base? b with
    | none => trivial
    | some base => exact ORel.bind_same _ (fun b' => modifyBase_permU env h b')
  | chargingStation sid cid =>
    simp only [exit, ← hl.vehicle? hu, ← hl.station? hu]
    cases s.vehicle? v with
    | none => trivial
    | some veh =>
      cases s.station? sid with
      | none => trivial
      | some st => exact ORel.bind_same _ (fun st' => modifyStation_permU env h st')
  | chargingBase b cid =>
    simp only [exit, ← hl.vehicle? hu, ← hl.base? hu]
    cases s.base? b with
    | none => trivial
    | some base =>
      cases s.vehicle? v with
      | none => trivial
      | some veh =>
        have hst : base.station.bind s.station? = base.station.bind s'.station? := by
          cases base.station with
          | none => rfl
          | some sid => exact hl.station? hu sid
        simp only [← hst]
        cases base.station.bind s.station? with
        | none => trivial
        | some st =>
          refine ORel.bind_same _ (fun base' => ?_)
          refine ORel.bind (modifyBase_permU env h base') (fun a b hab => ?_)
          exact ORel.bind_same _ (fun st' => modifyStation_permU env hab st')
  | chargeQueueing sid cid _ =>
    simp only [exit, ← hl.station? hu]
    cases s.station? sid with
    | none => trivial
    | some st => exact ORel.bind_same _ (fun st' => modifyStation_permU env h st')
  | dispatchTrip rid _ =>
    simp only [exit, ← hl.request? hu]
    cases s.request? rid with
    | none => exact h
    | some req => exact modifyRequest_permU env h _
  | servicingTrip _ _ route =>
    simp only [exit]
    exact ite_rel (fun _ => h) (fun _ => trivial)
  | servicingPooling => trivial
  | dispatchPooling => trivial

end

section
variable (env : Env) {w w' : World}

/-- wrap a related state into related worlds -/
theorem wrap_sim (hw : PermW w w') {x : Outcome Sim} {y : Outcome Sim} (h : ORel PermU x y) :
    ORel PermW (x >>= fun s => pure { w with sim := s }) (y >>= fun s => pure { w' with sim := s }) :=
  ORel.bind h (fun _ _ hab => ⟨hab, hw.2⟩)

theorem pickUpTrip_permW (hw : PermW w w') (v : VehicleId) (rid : RequestId) :
    ORel PermW (pickUpTrip env w v rid) (pickUpTrip env w' v rid) := by
  obtain ⟨h, hlog⟩ := hw
  unfold pickUpTrip
  rw [← h.1.vehicle? h.2 v, ← h.1.request? h.2 rid]
  cases w.sim.vehicle? v with
  | none => trivial
  | some veh =>
    cases w.sim.request? rid with
    | none => trivial
    | some req =>
      simp only
      refine ORel.bind (modifyVehicle_permU env h _) (fun a b hab => ?_)
      refine ORel.bind (removeRequest_permU env hab rid) (fun a2 b2 hab2 => ?_)
      exact ⟨hab2, by simp only [hlog, hab.1.time]⟩

end


section
variable (env : Env) {w w' : World}

macro "rel_ites" : tactic =>
  `(tactic| repeat (first | exact trivial | refine ite_rel (fun _ => ?_) (fun _ => ?_)))

/-- **`VehicleState.enter`** of every activity -/
theorem enter_permW (hw : PermW w w') (v : VehicleId) (a : Act) :
    ORel PermW (enter env w v a) (enter env w' v a) := by
  have h := hw.1
  have hl := hw.1.1
  have hu := hw.1.2
  cases a with
  | idle d => simp only [enter]; exact wrap_sim hw (applyAct_permU env h v _)
  | outOfService => simp only [enter]; exact wrap_sim hw (applyAct_permU env h v _)
  | repositioning route =>
    simp only [enter, ← hl.vehicle? hu]
    cases w.sim.vehicle? v with
    | none => trivial
    | some veh =>
      simp only
      rel_ites
      exact wrap_sim hw (applyAct_permU env h v _)
  | reserveBase b =>
    simp only [enter, ← hl.vehicle? hu, ← hl.base? hu]
    cases w.sim.vehicle? v with
    | none => trivial
    | some veh =>
      cases w.sim.base? b with
      | none => trivial
      | some base =>
        simp only
        rel_ites
        cases base.checkout with
        | none => trivial
        | some base' =>
          simp only
          refine ORel.bind (modifyBase_permU env h base') (fun a b hab => ?_)
          exact ORel.bind (applyAct_permU env hab v _) (fun _ _ hab2 => ⟨hab2, hw.2⟩)
  | chargingStation sid cid =>
    simp only [enter, ← hl.vehicle? hu, ← hl.station? hu]
    cases w.sim.vehicle? v with
    | none => trivial
    | some veh =>
      cases w.sim.station? sid with
      | none => trivial
      | some st =>
        simp only
        rel_ites
        cases st.plug? cid with
        | none => trivial
        | some cs =>
          simp only
          rel_ites
          refine ORel.bind_same _ (fun st' => ?_)
          refine ORel.bind (modifyStation_permU env h st') (fun a b hab => ?_)
          exact ORel.bind (applyAct_permU env hab v _) (fun _ _ hab2 => ⟨hab2, hw.2⟩)
  | chargingBase b cid =>
    simp only [enter, ← hl.vehicle? hu, ← hl.base? hu]
    cases w.sim.vehicle? v with
    | none => trivial
    | some veh =>
      cases w.sim.base? b with
      | none => trivial
      | some base =>
        simp only
        cases base.station with
        | none => trivial
        | some sid =>
          simp only [← hl.station? hu]
          cases w.sim.station? sid with
          | none => trivial
          | some st =>
            simp only
            rel_ites
            cases base.checkout with
            | none => trivial
            | some base' =>
              simp only
              cases st.plug? cid with
              | none => trivial
              | some cs =>
                simp only
                rel_ites
                refine ORel.bind_same _ (fun st' => ?_)
                refine ORel.bind (modifyBase_permU env h base') (fun a b hab => ?_)
                refine ORel.bind (modifyStation_permU env hab st') (fun a2 b2 hab2 => ?_)
                exact ORel.bind (applyAct_permU env hab2 v _) (fun _ _ hab3 => ⟨hab3, hw.2⟩)
  | chargeQueueing sid cid t =>
    simp only [enter, ← hl.vehicle? hu, ← hl.station? hu]
    cases w.sim.vehicle? v with
    | none => trivial
    | some veh =>
      cases w.sim.station? sid with
      | none => trivial
      | some st =>
        simp only
        rel_ites
        refine ORel.bind_same _ (fun st' => ?_)
        refine ORel.bind (modifyStation_permU env h st') (fun a b hab => ?_)
        exact ORel.bind (applyAct_permU env hab v _) (fun _ _ hab2 => ⟨hab2, hw.2⟩)
  | dispatchStation sid cid route =>
    simp only [enter, ← hl.vehicle? hu, ← hl.station? hu]
    cases w.sim.vehicle? v with
    | none => trivial
    | some veh =>
      cases w.sim.station? sid with
      | none => trivial
      | some st =>
        simp only
        refine ite_rel (fun _ => ?_) (fun _ => ?_)
        · rel_ites
          cases st.plug? cid with
          | none => trivial
          | some cs =>
            simp only
            rel_ites
            refine ORel.bind_same _ (fun st' => ?_)
            refine ORel.bind (modifyStation_permU env h st') (fun a b hab => ?_)
            exact ORel.bind (applyAct_permU env hab v _) (fun _ _ hab2 => ⟨hab2, hw.2⟩)
        · rel_ites
          exact wrap_sim hw (applyAct_permU env h v _)
  | dispatchBase b route =>
    simp only [enter, ← hl.vehicle? hu, ← hl.base? hu]
    cases w.sim.base? b with
    | none => trivial
    | some base =>
      cases w.sim.vehicle? v with
      | none => trivial
      | some veh =>
        simp only
        rel_ites
        exact wrap_sim hw (applyAct_permU env h v _)
  | dispatchTrip rid route =>
    simp only [enter, ← hl.vehicle? hu, ← hl.request? hu, ← hl.time]
    cases w.sim.vehicle? v with
    | none => trivial
    | some veh =>
      simp only
      cases w.sim.request? rid with
      | none => trivial
      | some req =>
        simp only
        rel_ites
        refine ORel.bind (modifyRequest_permU env h _) (fun a b hab => ?_)
        exact ORel.bind (applyAct_permU env hab v _) (fun _ _ hab2 => ⟨hab2, hw.2⟩)
  | servicingTrip sreq dep route =>
    simp only [enter, ← hl.vehicle? hu, ← hl.request? hu]
    cases w.sim.vehicle? v with
    | none => trivial
    | some veh =>
      simp only
      cases w.sim.request? sreq.id with
      | none => trivial
      | some req =>
        simp only
        rel_ites
        refine ORel.bind (pickUpTrip_permW env hw v sreq.id) (fun w1 w1' hw1 => ?_)
        exact ORel.bind (applyAct_permU env hw1.1 v _) (fun _ _ hab2 => ⟨hab2, hw1.2⟩)
  | servicingPooling => trivial
  | dispatchPooling => trivial

/-- **`entity_state_ops.transition_previous_to_next`** (exit of the previous activity, enter of the
    next on the intermediate state) -/
theorem transition_permW (hw : PermW w w') (v : VehicleId) (prev next : Act) :
    ORel PermW (transition env w v prev next) (transition env w' v prev next) := by
  unfold transition
  refine ORel.bind (exit_permU env hw.1 v prev) (fun a b hab => ?_)
  exact enter_permW env (w := { w with sim := a }) (w' := { w' with sim := b }) ⟨hab, hw.2⟩ v next

end


section
variable (env : Env) {w w' : World}

theorem terminal_perm {s s' : Sim} (h : PermU s s') (v : VehicleId) (a : Act) :
    terminal env s v a = terminal env s' v a := by
  cases a <;> simp only [terminal, ← h.1.vehicle? h.2, ← h.1.station? h.2]

theorem defaultNext_perm {s s' : Sim} (h : PermU s s') (v : VehicleId) (a : Act) :
    defaultNext env s v a = defaultNext env s' v a := by
  cases a <;> simp only [defaultNext, ← h.1.vehicle? h.2, ← h.1.station? h.2, ← h.1.base? h.2,
    ← h.1.request? h.2, ← h.1.time]

theorem dropOffTrip_permW (hw : PermW w w') (v : VehicleId) (req : Request) :
    ORel PermW (dropOffTrip w v req) (dropOffTrip w' v req) := by
  unfold dropOffTrip
  rw [← hw.1.1.vehicle? hw.1.2 v]
  cases w.sim.vehicle? v with
  | none => trivial
  | some veh =>
    simp only
    refine ite_rel (fun _ => trivial) (fun _ => ?_)
    exact ⟨hw.1, by simp only [hw.2]⟩

/-- **`vehicle_state_ops.move`** -/
theorem move_permW (hw : PermW w w') (v : VehicleId) :
    ORel PermW (move env w v) (move env w' v) := by
  have h := hw.1
  unfold move
  rw [← h.1.vehicle? h.2 v, ← h.1.dt]
  cases w.sim.vehicle? v with
  | none => trivial
  | some veh =>
    simp only
    refine ite_rel (fun _ => trivial) (fun _ => ?_)
    cases veh.act.route? with
    | none => trivial
    | some route =>
      simp only
      refine ORel.bind_same _ (fun tr => ?_)
      refine ite_rel (fun _ => ?_) (fun _ => ?_)
      · exact wrap_sim hw (modifyVehicle_permU env h _)
      · refine ite_rel (fun _ => ?_) (fun _ => ?_)
        · have h0 : PermU (match exit env w.sim v veh.act with | .ok s' => s' | _ => w.sim)
              (match exit env w'.sim v veh.act with | .ok s' => s' | _ => w'.sim) := by
            have he := exit_permU env h v veh.act
            cases hx : exit env w.sim v veh.act <;> cases hy : exit env w'.sim v veh.act <;>
              rw [hx, hy] at he <;> first | exact he.elim | exact he | exact h
          exact wrap_sim hw (applyAct_permU env h0 v _)
        · cases tr.experienced.getLast? with
          | none => trivial
          | some last =>
            simp only
            refine ORel.bind (modifyVehicle_permU env h _) (fun a b hab => ?_)
            exact ⟨hab, by simp only [hw.2]⟩

/-- **`vehicle_state_ops.charge`** -/
theorem charge_permW (hw : PermW w w') (v : VehicleId) (sid : StationId) (cid : ChargerId) :
    ORel PermW (charge env w v sid cid) (charge env w' v sid cid) := by
  have h := hw.1
  unfold charge
  rw [← h.1.vehicle? h.2 v, ← h.1.station? h.2 sid, ← h.1.dt]
  cases w.sim.station? sid with
  | none => trivial
  | some st =>
    cases w.sim.vehicle? v with
    | none => trivial
    | some veh =>
      simp only
      refine ite_rel (fun _ => trivial) (fun _ => ?_)
      cases st.plug? cid with
      | none => trivial
      | some cs =>
        simp only
        refine ite_rel (fun _ => trivial) (fun _ => ?_)
        refine ORel.bind (modifyVehicle_permU env h _) (fun a b hab => ?_)
        refine ORel.bind (modifyStation_permU env hab _) (fun a2 b2 hab2 => ?_)
        exact ⟨hab2, by simp only [hw.2]⟩

/-- **`_perform_update`** of every activity -/
theorem performUpdate_permW (hw : PermW w w') (v : VehicleId) (a : Act) :
    ORel PermW (performUpdate env w v a) (performUpdate env w' v a) := by
  have h := hw.1
  cases a with
  | idle d =>
    simp only [performUpdate, ← h.1.vehicle? h.2, ← h.1.dt]
    cases w.sim.vehicle? v with
    | none => trivial
    | some veh =>
      simp only
      refine ite_rel (fun _ => trivial) (fun _ => ?_)
      exact wrap_sim hw (modifyVehicle_permU env h _)
  | outOfService => exact hw
  | reserveBase _ => exact hw
  | repositioning _ => exact move_permW env hw v
  | dispatchTrip _ _ => exact move_permW env hw v
  | dispatchStation _ _ _ => exact move_permW env hw v
  | dispatchBase _ _ => exact move_permW env hw v
  | servicingTrip req _ _ =>
    simp only [performUpdate]
    refine ORel.bind (move_permW env hw v) (fun w1 w1' hw1 => ?_)
    rw [← hw1.1.1.vehicle? hw1.1.2 v]
    cases w1.sim.vehicle? v with
    | none => trivial
    | some moved =>
      simp only
      cases moved.act with
      | servicingTrip _ _ r =>
        simp only
        exact ite_rel (fun _ => dropOffTrip_permW hw1 v req) (fun _ => hw1)
      | _ => exact hw1
  | chargingStation sid cid => exact charge_permW env hw v sid cid
  | chargingBase b cid =>
    simp only [performUpdate, ← h.1.base? h.2]
    cases (w.sim.base? b).bind (·.station) with
    | none => trivial
    | some sid => exact charge_permW env hw v sid cid
  | chargeQueueing _ _ _ =>
    simp only [performUpdate, ← h.1.vehicle? h.2, ← h.1.dt]
    cases w.sim.vehicle? v with
    | none => trivial
    | some veh =>
      simp only
      refine ite_rel (fun _ => trivial) (fun _ => ?_)
      exact wrap_sim hw (modifyVehicle_permU env h _)
  | servicingPooling => trivial
  | dispatchPooling => trivial

/-- **`VehicleState.default_update`** -/
theorem defaultUpdate_permW (hw : PermW w w') (v : VehicleId) (a : Act) :
    ORel PermW (defaultUpdate env w v a) (defaultUpdate env w' v a) := by
  unfold defaultUpdate
  rw [← terminal_perm env hw.1 v a, ← defaultNext_perm env hw.1 v a]
  refine ite_rel (fun _ => ?_) (fun _ => performUpdate_permW env hw v a)
  refine ORel.bind_same _ (fun next => ?_)
  refine ORel.bind (transition_permW env hw v a next) (fun w1 w1' hw1 => ?_)
  rw [← hw1.1.1.vehicle? hw1.1.2 v]
  cases w1.sim.vehicle? v with
  | none => trivial
  | some veh => exact performUpdate_permW env hw1 v veh.act

/-- `step_vehicle`: a failed update leaves the world as it was -/
theorem stepVehicle_permW (hw : PermW w w') (v : VehicleId) (a : Act) :
    PermW (stepVehicle env w v a) (stepVehicle env w' v a) := by
  unfold stepVehicle
  have hd := defaultUpdate_permW env hw v a
  cases hx : defaultUpdate env w v a <;> cases hy : defaultUpdate env w' v a <;>
    rw [hx, hy] at hd <;> first | exact hd.elim | exact hd | exact hw

/-- **the vehicle update phase (`perform_vehicle_state_updates`) does not depend on the hand-out
    order**: the same vehicles are stepped in the same order with the same snapshot activities, and
    every step keeps the two worlds related -/
theorem vehicleUpdates_permW (hw : PermW w w') :
    PermW (vehicleUpdates env w) (vehicleUpdates env w') := by
  unfold vehicleUpdates
  rw [← updateOrder_permEnt hw.1.1 hw.1.2]
  generalize updateOrder w.sim.vehicles = order
  induction order generalizing w w' with
  | nil => exact hw
  | cons x xs ih => exact ih (stepVehicle_permW env hw x.id x.act)

/-- pass 2 of `apply_instructions` -/
theorem applyPlans_permW (hw : PermW w w') (ps : List (Instr × VehicleId × Act × Act)) :
    PermW (applyPlans env w ps) (applyPlans env w' ps) := by
  induction ps generalizing w w' with
  | nil => exact hw
  | cons p ps ih =>
    obtain ⟨i, v, prev, next⟩ := p
    simp only [applyPlans]
    have ht := transition_permW env hw v prev next
    cases hx : transition env w v prev next <;> cases hy : transition env w' v prev next <;>
      rw [hx, hy] at ht <;> first | exact ht.elim | skip
    · next a b =>
      refine ih ⟨⟨{ ht.1.1 with applied := upsert_perm _ ht.1.1.applied _ }, ?_⟩, ht.2⟩
      exact ⟨ht.1.2.vehicles, ht.1.2.stations, ht.1.2.bases, ht.1.2.requests⟩
    · exact ih hw
    · exact ih hw

/-- **the instruction phase (`apply_instructions`, both passes) does not depend on the hand-out
    order** -/
theorem applyInstructions_permW (hw : PermW w w') (is : List Instr) :
    PermW (applyInstructions env w is) (applyInstructions env w' is) := by
  unfold applyInstructions
  rw [← planAll_perm env hw.1.1 hw.1.2 is]
  exact applyPlans_permW env hw _

end


section
variable (env : Env) {w w' : World}

theorem tick_permW (hw : PermW w w') :
    PermW { w with sim := w.sim.tick } { w' with sim := w'.sim.tick } := by
  obtain ⟨⟨h, hu⟩, hlog⟩ := hw
  refine ⟨⟨?_, ⟨hu.vehicles, hu.stations, hu.bases, hu.requests⟩⟩, hlog⟩
  exact { h with time := by simp only [Sim.tick, h.time, h.dt], dt := h.dt }

/-- one control step: instruction phase, vehicle update phase, clock -/
def controlStep (w : World) (is : List Instr) : World :=
  let w1 := vehicleUpdates env (applyInstructions env w is)
  { w1 with sim := w1.sim.tick }

/-- **one step of the control cycle does not depend on the hand-out order** -/
theorem control_step_order_independent (hw : PermW w w') (is : List Instr) :
    PermW (controlStep env w is) (controlStep env w' is) :=
  tick_permW (vehicleUpdates_permW env (applyInstructions_permW env hw is))

/-- **any number of steps**: two hand-out orders of one initial state stay two hand-out orders of
    one state, with identical event logs, whatever the instruction lists -/
theorem control_run_order_independent (hw : PermW w w') (iss : List (List Instr)) :
    PermW (iss.foldl (controlStep env) w) (iss.foldl (controlStep env) w') := by
  induction iss generalizing w w' with
  | nil => exact hw
  | cons is rest ih => exact ih (control_step_order_independent env hw is)

/-- **what an observer sees is the same**: every lookup by id, the clock and the event log -/
theorem observations_agree (hw : PermW w w') :
    (∀ i, w.sim.vehicle? i = w'.sim.vehicle? i) ∧ (∀ i, w.sim.station? i = w'.sim.station? i) ∧
    (∀ i, w.sim.base? i = w'.sim.base? i) ∧ (∀ i, w.sim.request? i = w'.sim.request? i) ∧
    w.sim.time = w'.sim.time ∧ w.log = w'.log :=
  ⟨hw.1.1.vehicle? hw.1.2, hw.1.1.station? hw.1.2, hw.1.1.base? hw.1.2, hw.1.1.request? hw.1.2,
   hw.1.1.time, hw.2⟩

/-- a well-formed state and any permutation of its entity maps are related -/
theorem permW_of_perm {s s' : Sim} (hwf : s.WF) (h : PermEnt s s') (log : List Event) :
    PermW ⟨s, log⟩ ⟨s', log⟩ := ⟨⟨h, UniqueIds.of_wf hwf⟩, rfl⟩

end

/-- **not vacuous**: two different hand-out orders of a state with two stations and two vehicles are
    related worlds - the premise of every theorem of this file -/
example :
    let st (i : Nat) : Station := { (default : Station) with id := i }
    let v (i : Nat) : Vehicle := { (default : Vehicle) with id := i }
    let s : Sim := { (default : Sim) with stations := [st 1, st 2], vehicles := [v 1, v 2] }
    let s' : Sim := { (default : Sim) with stations := [st 2, st 1], vehicles := [v 2, v 1] }
    s.stations ≠ s'.stations ∧ PermW ⟨s, []⟩ ⟨s', []⟩ := by
  refine ⟨by decide, ⟨⟨⟨rfl, rfl, ?_, ?_, .refl _, .refl _, .refl _, .refl _, .refl _, .refl _, .refl _⟩, ⟨?_, ?_, ?_, ?_⟩⟩, rfl⟩⟩
  · exact List.Perm.swap _ _ _
  · exact List.Perm.swap _ _ _
  all_goals decide

end C01
end Hive
