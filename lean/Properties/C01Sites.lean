/-
  C01 — the iteration-site obligation (the *regenerated* half of the tie for C01).

  `Hive/Gen/Sites.lean` is rewritten from /repo's source by `harness/sites.py` at the start of every
  run of the C01 check: one row per syntactic iteration over a hash-ordered container
  (`.items()/.keys()/.values()`, set- and Map-typed fields, `set(...)`, `frozenset(...)`,
  `h3.k_ring(...)`, local names bound to such values), with the class of its consumer. The theorems
  below are therefore re-checked against what the code says *now*:

  * `sites_ok`: every iteration in the code is consumed by a sort, by an order-blind consumer, or is
    one of the `reviewed` raw sites - each listed with the reason why its order cannot reach an
    entity state, an event or a statistic (or reaches only what C01 exempts);
  * `anchors_present`: the sorted views on which the model's processing orders rest
    (`get_vehicles()` …, `DictOps.iterate_*`, the instruction-stack pop, the price update, the
    dispatcher's fleet loop, the charger rankings, the ring search) are still sorted views.

  Dropping a `sorted(...)`, replacing `get_vehicles()` by `vehicles.values()`, folding over a new
  `set` - each changes a row or adds one, and `decide` fails. That is a broken proof obligation, not
  yet a violation: the check then runs the hash-seed search with a larger budget (see DESIGN 7.9).
  What this table cannot see: an order that leaks through a *sort key* that is not injective (ties),
  `min`/`max` over a sorted view with ties, iteration hidden behind a call into another package.
  Those are the business of the hash-seed runs.
-/
import Hive.Gen.Sites

namespace Hive
namespace C01Sites

/-- raw iteration sites of the pinned tree, read one by one -/
def reviewed : List (Site × String) := [
  (⟨"config.config_builder", "ConfigBuilder.build", "_.items()", .raw⟩,
    "plain dict built from the parsed YAML / a NamedTuple's _asdict(): insertion-ordered, filled in file / field order"),
  (⟨"config.hive_config", "HiveConfig.asdict", "_._asdict().items()", .raw⟩,
    "plain dict built from the parsed YAML / a NamedTuple's _asdict(): insertion-ordered, filled in file / field order"),
  (⟨"config.hive_config", "HiveConfig.asdict", "_.items()", .raw⟩,
    "plain dict built from the parsed YAML / a NamedTuple's _asdict(): insertion-ordered, filled in file / field order"),
  (⟨"config.hive_config", "HiveConfig.from_dict", "_.asdict().items()", .raw⟩,
    "plain dict built from the parsed YAML / a NamedTuple's _asdict(): insertion-ordered, filled in file / field order"),
  (⟨"config.input", "Input.from_dict", "_.items()", .raw⟩,
    "plain dict built from the parsed YAML / a NamedTuple's _asdict(): insertion-ordered, filled in file / field order"),
  (⟨"dispatcher.instruction.instruction_ops", "trip_plan_all_requests_allow_pooling", "req_ids_unique", .raw⟩,
    "pooling trip plans: unreachable from a loaded scenario (Full.no_pooling); the fold only collects error ids for a message"),
  (⟨"dispatcher.instruction_generator.dispatcher", "Dispatcher.generate_instructions", "fleet_ids", .raw⟩,
    "local tuple named fleet_ids = tuple(sorted(environment.fleet_ids, key=str)) (fix F1): already sorted"),
  (⟨"initialization.sample_requests", "default_request_sampler", "_.road_network.link_helper.links.values()", .raw⟩,
    "sampling initialisers (random scenario generation from a seed, not part of a run of a given scenario); dict of links filled in file order"),
  (⟨"initialization.sample_vehicles", "build_default_location_sampling_fn._inner", "_.road_network.link_helper.links.values()", .raw⟩,
    "sampling initialisers (random scenario generation from a seed, not part of a run of a given scenario); dict of links filled in file order"),
  (⟨"initialization.sample_vehicles", "sample_vehicles", "_.mechatronics.keys()", .raw⟩,
    "sampling initialisers (random scenario generation from a seed, not part of a run of a given scenario); dict of links filled in file order"),
  (⟨"model.membership", "Membership.__str__", "_.memberships", .raw⟩,
    "prints / exports the members of a set-valued field: the order C01 exempts; the canonicaliser sorts it"),
  (⟨"model.membership", "Membership.add_membership", "_.memberships", .raw⟩,
    "builds a frozenset from the old members plus one: the result is a set, its construction order is not observable"),
  (⟨"model.membership", "Membership.as_tuple", "_.memberships", .raw⟩,
    "prints / exports the members of a set-valued field: the order C01 exempts; the canonicaliser sorts it"),
  (⟨"model.membership", "Membership.to_json", "_.memberships", .raw⟩,
    "prints / exports the members of a set-valued field: the order C01 exempts; the canonicaliser sorts it"),
  (⟨"model.roadnetwork.osm.osm_roadnetwork", "OSMRoadNetwork.__init__", "_.links.values()", .raw⟩,
    "dict of links filled in the order of the graph file; used to build the KD-tree arrays in that order"),
  (⟨"reporting.handler.kepler_handler", "KeplerHandler.close", "_.kepler_features.values()", .raw⟩,
    "plain dict filled in the order of the events of the run (insertion-ordered)"),
  (⟨"reporting.handler.stateful_handler", "StatefulHandler.station_asdict", "_.state.items()", .raw⟩,
    "Station.state Map → one output column per plug type in a dict row: the columns are named, their order in the dict is not written (json keys); order of members of a record is exempt"),
  (⟨"reporting.handler.stateful_handler", "StatefulHandler.vehicle_asdict", "_.energy.items()", .raw⟩,
    "NamedTuple _asdict() / single-entry energy Map (one energy type per vehicle, vehicle_move_event refuses more)"),
  (⟨"reporting.handler.stateful_handler", "StatefulHandler.vehicle_asdict", "_.position._asdict().items()", .raw⟩,
    "NamedTuple _asdict() / single-entry energy Map (one energy type per vehicle, vehicle_move_event refuses more)"),
  (⟨"reporting.handler.summary_stats", "SummaryStats.compile_stats", "vehicle_states_observed", .raw⟩,
    "plain dicts filled in the order of the (sorted) vehicle iteration; only logged line by line"),
  (⟨"reporting.handler.summary_stats", "SummaryStats.log", "_.state_count.items()", .raw⟩,
    "plain dicts filled in the order of the (sorted) vehicle iteration; only logged line by line"),
  (⟨"reporting.handler.summary_stats", "SummaryStats.log", "_.vkt.items()", .raw⟩,
    "plain dicts filled in the order of the (sorted) vehicle iteration; only logged line by line"),
  (⟨"reporting.handler.time_step_stats_handler", "TimeStepStatsHandler.__init__", "fleet_ids", .raw⟩,
    "fleet_ids parameter: builds the per-fleet dict of empty lists; rows are later written per fleet to separate files"),
  (⟨"reporting.handler.time_step_stats_handler", "TimeStepStatsHandler.close", "_.get_fleet_time_step_stats().items()", .raw⟩,
    "plain dicts keyed by fleet / plug type built from sorted inputs; separate output file per fleet, named columns per plug type"),
  (⟨"reporting.handler.time_step_stats_handler", "TimeStepStatsHandler.handle", "_.chargers.keys()", .raw⟩,
    "plain dicts keyed by fleet / plug type built from sorted inputs; separate output file per fleet, named columns per plug type"),
  (⟨"reporting.handler.time_step_stats_handler", "TimeStepStatsHandler.handle", "_.fleets_data.keys()", .raw⟩,
    "plain dicts keyed by fleet / plug type built from sorted inputs; separate output file per fleet, named columns per plug type"),
  (⟨"reporting.reporter_ops", "log_station_capacities._station_energy", "_.state.values()", .raw⟩,
    "sum of plug rates of one station for station_capacities.csv (written once before the run; not a state, event or summary statistic); at most a handful of addends"),
  (⟨"reporting.vehicle_event_ops", "construct_station_load_events", "unreported_station_ids", .raw⟩,
    "set difference folded into a Map with Map.update: a Map built from a set, the insertion order is not observable"),
  (⟨"reporting.vehicle_event_ops", "construct_station_load_events._to_reports", "_.keys()", .raw⟩,
    "station load events of one step: the order of lines written within one time step is exempt"),
  (⟨"reporting.vehicle_event_ops", "vehicle_move_event", "_.energy.keys()", .raw⟩,
    "energy Map with exactly one key (more than one raises NotImplementedError two lines above)"),
  (⟨"state.simulation_state.update.charging_price_update", "ChargingPriceUpdate.build", "_.keys()", .raw⟩,
    "default price table: a plain dict built in the order of the charger file; one row per plug type at time 0, all applied in the same step through the sorted update"),
  (⟨"state.simulation_state.update.step_simulation", "StepSimulation.get_instruction_generator", "_.instruction_generators.values()", .raw⟩,
    "plain dict of generators keyed by class name, in the order of the tuple they were given in"),
  (⟨"state.simulation_state.update.step_simulation_ops", "perform_vehicle_state_updates", "_.vehicles.values()", .raw⟩,
    "tuple(vehicles.values()) handed to _sort_by_vehicle_state, which partitions and sorts by (enqueue time, id) / id: model updateOrder, theorem C01.update_order_invariant"),
  (⟨"util.dict_ops", "DictOps.merge_dicts", "_.items()", .raw⟩,
    "merges two price Maps key by key (distinct keys: later wins only for the same key, and the second operand always wins): order of keys not observable")
]

/-- sorted views the model relies on: if one of these rows disappears or changes class, a
    processing order of the model (`updateOrder`, `sortBy` by id in `Timed`, `Shift`, `Stack`,
    `Dispatch`) is no longer what the code does -/
def anchors : List Site := [
  ⟨"state.simulation_state.simulation_state", "SimulationState.get_vehicles", "_.vehicles", .sorted⟩,
  ⟨"state.simulation_state.simulation_state", "SimulationState.get_vehicle_ids", "_.vehicles.keys()", .sorted⟩,
  ⟨"state.simulation_state.simulation_state", "SimulationState.get_requests", "_.requests", .sorted⟩,
  ⟨"state.simulation_state.simulation_state", "SimulationState.get_request_ids", "_.requests.keys()", .sorted⟩,
  ⟨"state.simulation_state.simulation_state", "SimulationState.get_stations", "_.stations", .sorted⟩,
  ⟨"state.simulation_state.simulation_state", "SimulationState.get_station_ids", "_.stations.keys()", .sorted⟩,
  ⟨"state.simulation_state.simulation_state", "SimulationState.get_bases", "_.bases", .sorted⟩,
  ⟨"state.simulation_state.simulation_state", "SimulationState.get_base_ids", "_.bases.keys()", .sorted⟩,
  ⟨"util.dict_ops", "DictOps.iterate_vals", "_.values()", .sorted⟩,
  ⟨"util.dict_ops", "DictOps.iterate_items", "_.items()", .sorted⟩,
  ⟨"state.simulation_state.update.step_simulation", "StepSimulation.update", "_.keys()", .sorted⟩,
  ⟨"state.simulation_state.update.charging_price_update", "ChargingPriceUpdate.update", "_.keys()", .sorted⟩,
  ⟨"state.simulation_state.update.charging_price_update", "_map_to_station_ids", "_.keys()", .sorted⟩,
  ⟨"dispatcher.instruction_generator.dispatcher", "Dispatcher.generate_instructions", "_.fleet_ids", .sorted⟩,
  ⟨"dispatcher.instruction_generator.assignment_ops", "nearest_shortest_queue_ranking", "_.on_shift_access_chargers", .sorted⟩,
  ⟨"dispatcher.instruction_generator.assignment_ops", "shortest_time_to_charge_ranking", "_.state.keys()", .sorted⟩,
  ⟨"util.h3_ops", "H3Ops.nearest_entity._search", "_.k_ring(_, _)", .sorted⟩
]

def covered (s : Site) : Bool :=
  s.cls != .raw || reviewed.any (fun r => r.1 == s)

/-- **every iteration over a hash-ordered container in today's source is sorted, order-blind, or
    reviewed** -/
theorem sites_ok : ∀ s ∈ Gen.sites, covered s = true := by decide +kernel

/-- **the sorted views the model's processing orders rest on are still there** -/
theorem anchors_present : ∀ a ∈ anchors, a ∈ Gen.sites := by decide +kernel

/-- no reviewed entry is stale (a reviewed site that no longer exists must be taken off the list, so
    that the list stays a description of the code) -/
theorem reviewed_current : ∀ r ∈ reviewed, r.1 ∈ Gen.sites := by decide +kernel

/-- **not vacuous**: the table is not empty and contains raw sites that needed the review -/
example : Gen.sites.length ≥ 80 ∧ (Gen.sites.filter (fun s => s.cls == .raw)).length = reviewed.length := by
  decide +kernel

end C01Sites
end Hive
