/-
  Property C07 — a vehicle's activity is consistent with where it is.

  `inv07` (Hive/Inv.lean, also the monitor on implementation states): a vehicle charging or
  queueing at a station is at the station's cell; parked or charging at a base: at the base's
  cell; a travelling vehicle's route is connected, starts at the vehicle's cell and ends at the
  target's cell (station, base, waiting request, or the destination of the request on board);
  an exhausted route means the vehicle is at the target.

  Theorem `reachable`: `inv07` holds in every reachable state — for every controller (remote
  targets included), every environment whose router returns connected routes
  (`GeoSpec.route_connected`, the conclusion of C13) and whose traversal function satisfies
  `TraverseSpec`. `concrete` discharges the second hypothesis for the model's own `traverse`
  (Hive/Traverse.lean) with any geometry oracle: no assumption on H3 is needed.
  Pickup only at the origin / drop-off only at the destination are `pickup_at_origin`,
  `dropoff_at_destination`.
-/
import Proofs.C07

namespace Hive
namespace C07

theorem runInv {env : Env} (hg : GeoSpec env) :
    RunInv env (fun s => s.vehicles.all (locOk' s) = true) :=
  vehPred_runInv (locOk'_vehPred hg)

theorem inv07_of_all {s : Sim} (h : s.vehicles.all (locOk' s) = true) : inv07 s = true := by
  unfold inv07
  rw [List.all_eq_true] at h ⊢
  intro v hv
  have := h v hv
  unfold locOk' at this
  simp only [Bool.and_eq_true] at this
  exact this.1

/-- **C07** -/
theorem reachable {env : Env} (hg : GeoSpec env) {s0 s : Sim} (hwf : s0.WF) (hdt : 0 < s0.dt)
    (h0 : inv07 s0 = true) (h : Reachable env s0 s) : inv07 s = true := by
  apply inv07_of_all
  refine reachable_inv (runInv hg) hwf ?_ h
  unfold inv07 at h0
  rw [List.all_eq_true] at h0 ⊢
  intro v hv
  unfold locOk'
  simp [h0 v hv, hdt]

/-- the traversal half of `GeoSpec` holds for the model's `traverse`, whatever the H3 oracle says -/
theorem concrete_traverse (g : Geo) : ∀ dt, 0 < dt → TraverseSpec (traverse g) dt :=
  fun _ hdt => traverse_spec g hdt

/-- a trip is started only at the request's origin: a successful `ServicingTrip` entry produced by
    the default transition happens with the vehicle at the request's cell -/
theorem pickup_at_origin {env : Env} {s : Sim} {v : VehicleId} {veh : Vehicle} {rid : RequestId} {r0 : Route}
    {next : Act} (hveh : s.vehicle? v = some veh) (hact : veh.act = .dispatchTrip rid r0)
    (h : defaultNext env s v veh.act = .ok next) :
    next = .idle 0 ∨ next = .servicingPooling ∨
    ∃ req, s.request? rid = some req ∧ req.pos.cell = veh.pos.cell ∧
      next = .servicingTrip req s.time (env.route req.pos req.dest) := by
  rcases defaultNext_spec h with hn | ⟨rid', r0', req, veh', ha, hreq, hveh', hc, hnext⟩
  · rw [hact] at h
    simp only [defaultNext, hveh] at h
    split at h
    · cases h; exact Or.inl rfl
    · split at h
      · cases h
      · split at h
        · cases h; exact Or.inr (Or.inl rfl)
        · cases h; simp [Act.route?] at hn
  · rw [hact] at ha; cases ha
    rw [hveh] at hveh'; cases hveh'
    exact Or.inr (Or.inr ⟨req, hreq, hc, hnext⟩)

/-- a drop-off is reported only with the vehicle at the request's destination -/
theorem dropoff_at_destination {w w2 : World} {v : VehicleId} {req : Request}
    (h : dropOffTrip w v req = .ok w2) (hp : 0 < req.passengers) :
    ∃ veh, w.sim.vehicle? v = some veh ∧ veh.pos.cell = req.dest.cell := by
  unfold dropOffTrip at h
  split at h
  · cases h
  · next veh hveh =>
    split at h
    · cases h
    · next hc =>
      refine ⟨veh, hveh, ?_⟩
      have hp' : decide (req.passengers > 0) = true := by simpa using hp
      simp only [hp', Bool.true_and, bne_iff_ne, ne_eq, Decidable.not_not] at hc
      exact hc.symm

/-! non-vacuity: a state with a vehicle at a station, one at a base, one en route -/
private def pA : Pos := ⟨0, 10⟩
private def pB : Pos := ⟨1, 20⟩
private def veh (i : Nat) (p : Pos) (a : Act) : Vehicle := ⟨i, p, [], 0, ⟨1, 0, 0⟩, a, .autonomous, 0, 0⟩
private def ex : Sim :=
  { time := 0, dt := 60,
    vehicles := [veh 0 pB (.chargingStation 0 0), veh 1 pA (.reserveBase 0),
                 veh 2 pA (.dispatchStation 0 0 [⟨5, 10, 15, 1, 40⟩, ⟨6, 15, 20, 1, 40⟩]),
                 veh 3 pB (.dispatchStation 0 0 [])],
    stations := [⟨0, pB, [], [⟨0, true, 50, 2, 1, 0, 0⟩], [], 0, 0, 0⟩],
    bases := [⟨0, pA, [], 2, 1, none⟩],
    requests := [], applied := [], vIdx := ⟨[], []⟩, rIdx := ⟨[], []⟩, sIdx := ⟨[], []⟩, bIdx := ⟨[], []⟩ }
example : inv07 ex = true := by decide

/-- **a trip is started only at the request's origin, whoever proposes it**: every successful
    entry into `ServicingTrip` - the default transition of a vehicle that has arrived, or a
    transition proposed by a controller-defined instruction - finds the vehicle in the cell where
    the request waits (also when the request's own route is empty because its origin and
    destination coincide) -/
theorem trip_starts_at_origin {env : Env} {w w2 : World} {v : VehicleId} {sreq : Request} {dep : Time} {route : Route}
    (h : enter env w v (.servicingTrip sreq dep route) = .ok w2) :
    ∃ veh req, w.sim.vehicle? v = some veh ∧ w.sim.request? sreq.id = some req ∧ veh.pos.cell = req.pos.cell := by
  simp only [enter] at h
  split at h
  · cases h
  · next veh hveh =>
    split at h
    · cases h
    · next req hreq =>
      split at h
      · cases h
      · split at h
        · cases h
        · split at h
          · cases h
          · split at h
            · cases h
            · next hc =>
              have hc' : (veh.pos.cell == req.pos.cell && routeOk route veh.pos none) = true := by simpa using hc
              simp only [Bool.and_eq_true, beq_iff_eq] at hc'
              exact ⟨veh, req, hveh, hreq, hc'.1⟩

end C07
end Hive
