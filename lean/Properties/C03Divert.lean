/-
  C03, last clause, at the level of whole instruction phases: "no instruction can divert a vehicle
  that is carrying passengers".

  `C03.no_divert` (Properties/C03.lean) says that one plan for such a vehicle is skipped. Here: after
  `apply_instructions` with *any* instruction list (several instructions for the vehicle itself,
  instructions for every other vehicle, accepted or refused), a vehicle that was in `ServicingTrip`
  with road ahead is the very same record - its own plans are all computed against the snapshot
  activity and refused at `exit`, and the transitions of the other vehicles do not touch it
  (`Frame.others`). `divert_monitor_silent`: the monitor `Hive.viol03Divert` that the driver
  evaluates on the implementation's instruction phases (`C03/diverted`) is silent on the model's own
  phase - monitor and theorem state the same thing.
-/
import Proofs.Lift
import Proofs.Frame
import Hive.Monitor

namespace Hive
namespace C03
variable {env : Env}

/-- pass 2 keeps a vehicle whose every plan starts from "carrying passengers, road ahead" exactly as
    it is: its own plans are refused at the exit, the other vehicles' transitions do not touch it -/
theorem applyPlans_keeps_carrier {u : VehicleId} {veh : Vehicle} {q : Request} {d : Time} {l : Link} {r : Route}
    (hact : veh.act = .servicingTrip q d (l :: r)) :
    ∀ (ps : List (Instr × VehicleId × Act × Act)) (w : World), w.sim.WF → w.sim.vehicle? u = some veh →
      (∀ p ∈ ps, p.2.1 = u → p.2.2.1 = veh.act) →
      (applyPlans env w ps).sim.vehicle? u = some veh := by
  intro ps
  induction ps with
  | nil => intro w _ hv _; exact hv
  | cons p ps ih =>
    intro w hwf hv hps
    obtain ⟨i, v, prev, next⟩ := p
    simp only [applyPlans]
    have hps' : ∀ p ∈ ps, p.2.1 = u → p.2.2.1 = veh.act := fun p hp => hps p (List.mem_cons_of_mem _ hp)
    by_cases hvu : v = u
    · have hprev : prev = veh.act := hps (i, v, prev, next) List.mem_cons_self hvu
      have : transition env w v prev next = .rejected := by
        rw [hprev, hact]; simp [transition, exit]
      rw [this]
      exact ih w hwf hv hps'
    · cases ht : transition env w v prev next with
      | ok w' =>
        simp only
        have hfr := transition_frame hwf ht
        have hwf' : w'.sim.WF := (transition_sameIds hwf ht).wf hwf
        apply ih
        · exact wf_applied _ hwf'
        · show ({ w'.sim with applied := _ } : Sim).vehicle? u = some veh
          have : w'.sim.vehicle? u = w.sim.vehicle? u := hfr.others u (fun h => hvu h.symm)
          unfold Sim.vehicle? at this ⊢
          rw [this]; exact hv
        · exact hps'
      | rejected => exact ih w hwf hv hps'
      | error => exact ih w hwf hv hps'

/-- **no instruction phase diverts a vehicle that is carrying passengers** (state level): whatever
    the instruction list - several instructions for the vehicle, instructions for all the others -
    a vehicle that is in `ServicingTrip` with road ahead is, after `apply_instructions`, the very
    same record: same activity, same request, same route, same position -/
theorem no_divert_phase {w : World} (hwf : w.sim.WF) {u : VehicleId} {veh : Vehicle} {q : Request} {d : Time}
    {l : Link} {r : Route} (hv : w.sim.vehicle? u = some veh) (hact : veh.act = .servicingTrip q d (l :: r))
    (is : List Instr) : (applyInstructions env w is).sim.vehicle? u = some veh := by
  unfold applyInstructions
  apply applyPlans_keeps_carrier hact _ w hwf hv
  intro p hp hpu
  obtain ⟨_, _, ⟨veh', hveh', hprev⟩, _⟩ := (planAll_spec (env := env)).2 p hp
  rw [hpu, hv] at hveh'
  cases hveh'
  exact hprev.symm

/-- the monitor `viol03Divert`, evaluated on the model's own instruction phase, is silent -/
theorem divert_monitor_silent {w : World} (hwf : w.sim.WF) (is : List Instr) :
    viol03Divert w.sim (applyInstructions env w is).sim = [] := by
  unfold viol03Divert
  rw [List.flatMap_eq_nil_iff]
  intro p hp
  cases hact : p.act with
  | servicingTrip q d route =>
    simp only
    cases route with
    | nil => simp
    | cons l r =>
      have hv : w.sim.vehicle? p.id = some p := lookup_of_mem hwf.veh hp
      rw [no_divert_phase hwf hv hact is]
      simp [hact]
  | _ => rfl

end C03
end Hive
