/-
  C01 — permutation congruence of the state primitives (part of the congruence that the header of
  `Properties/C01.lean` lists as not formalised).

  `PermEnt s s'`: the two states hold the same entities and the same applied instructions, their
  indexes register the same ids under the same cells (`IdxEqv`, Properties/C01Index), but every map and
  set hands out its values in a different order (a different hash seed). Under unique ids (`UniqueIds`, part of `WF`):

  * every lookup by id gives the same record (`PermEnt.vehicle?` …);
  * (in `C01Walk.lean`) every primitive state operation of `simulation_state_ops` used by the
    control model has the same outcome kind on both states and leads to related states;
  * pass 1 of `apply_instructions` computes the same plans (`planAll_perm`), and the vehicle update
    phase steps the same sequence of (vehicle, snapshot activity) pairs (`updateOrder_permEnt`).

  The composite functions are walked through in `C01Walk.lean` and `C01Cycle.lean`.
-/
import Properties.C01
import Proofs.SimOps
import Hive.Lookup
import Properties.C01Index

namespace Hive
namespace C01

section Prims
variable {α : Type} (key : α → Nat)

/-- `m.set(x.id, x)` on two hand-out orders of one map gives two hand-out orders of one map -/
theorem replaceById_perm {xs ys : List α} (hp : xs.Perm ys) (x : α) :
    (replaceById key xs x).Perm (replaceById key ys x) := hp.map _

/-- `m.delete(i)` likewise -/
theorem removeById_perm {xs ys : List α} (hp : xs.Perm ys) (i : Nat) :
    (removeById key xs i).Perm (removeById key ys i) := hp.filter _

/-- `m.set(x.id, x)` for a key that may be new -/
theorem upsert_perm {xs ys : List α} (hp : xs.Perm ys) (x : α) :
    (upsert key xs x).Perm (upsert key ys x) := by
  unfold upsert
  have hany : xs.any (fun y => key y == key x) = ys.any (fun y => key y == key x) := by
    rw [Bool.eq_iff_iff]
    simp only [List.any_eq_true]
    constructor
    · rintro ⟨y, hy, h⟩; exact ⟨y, hp.mem_iff.mp hy, h⟩
    · rintro ⟨y, hy, h⟩; exact ⟨y, hp.mem_iff.mpr hy, h⟩
  rw [hany]
  split
  · exact replaceById_perm key hp x
  · exact hp.append_right _

end Prims

/-- two states that differ only in the order in which their four entity maps and the record of
    applied instructions hand out their values -/
structure PermEnt (s s' : Sim) : Prop where
  time : s.time = s'.time
  dt : s.dt = s'.dt
  vehicles : s.vehicles.Perm s'.vehicles
  stations : s.stations.Perm s'.stations
  bases : s.bases.Perm s'.bases
  requests : s.requests.Perm s'.requests
  applied : s.applied.Perm s'.applied
  vIdx : IdxEqv s.vIdx s'.vIdx
  rIdx : IdxEqv s.rIdx s'.rIdx
  sIdx : IdxEqv s.sIdx s'.sIdx
  bIdx : IdxEqv s.bIdx s'.bIdx

/-- unique ids in every entity map (what the loaders produce and every step keeps: `WF`) -/
structure UniqueIds (s : Sim) : Prop where
  vehicles : (s.vehicles.map Vehicle.id).Nodup
  stations : (s.stations.map Station.id).Nodup
  bases : (s.bases.map Base.id).Nodup
  requests : (s.requests.map Request.id).Nodup

theorem PermEnt.vehicle? {s s' : Sim} (h : PermEnt s s') (hu : UniqueIds s) (i : VehicleId) :
    s.vehicle? i = s'.vehicle? i := lookup_perm Vehicle.id h.vehicles hu.vehicles i
theorem PermEnt.station? {s s' : Sim} (h : PermEnt s s') (hu : UniqueIds s) (i : StationId) :
    s.station? i = s'.station? i := lookup_perm Station.id h.stations hu.stations i
theorem PermEnt.base? {s s' : Sim} (h : PermEnt s s') (hu : UniqueIds s) (i : BaseId) :
    s.base? i = s'.base? i := lookup_perm Base.id h.bases hu.bases i
theorem PermEnt.request? {s s' : Sim} (h : PermEnt s s') (hu : UniqueIds s) (i : RequestId) :
    s.request? i = s'.request? i := lookup_perm Request.id h.requests hu.requests i

/-- **the plans of an instruction phase (pass 1 of `apply_instructions`) do not depend on the hand-out
    order**: every plan is computed from records found by id -/
theorem planInstr_perm (env : Env) {s s' : Sim} (h : PermEnt s s') (hu : UniqueIds s) (i : Instr) :
    planInstr env s i = planInstr env s' i := by
  cases i <;> simp only [planInstr, ← h.vehicle? hu, ← h.request? hu, ← h.station? hu, ← h.base? hu]

theorem planAll_perm (env : Env) {s s' : Sim} (h : PermEnt s s') (hu : UniqueIds s) (is : List Instr) :
    planAll env s is = planAll env s' is := by
  induction is with
  | nil => rfl
  | cons i is ih => simp only [planAll, planInstr_perm env h hu i, ih]

/-- **the vehicle update phase steps the same (vehicle, snapshot activity) sequence** -/
theorem updateOrder_permEnt {s s' : Sim} (h : PermEnt s s') (hu : UniqueIds s) :
    updateOrder s.vehicles = updateOrder s'.vehicles :=
  update_order_invariant h.vehicles hu.vehicles

/-- a well-formed state (what the loaders produce and every step keeps) has unique ids -/
theorem UniqueIds.of_wf {s : Sim} (h : s.WF) : UniqueIds s := ⟨h.veh, h.stn, h.base, h.req⟩

/-- unique ids carry over to the other hand-out order -/
theorem PermEnt.uniqueIds {s s' : Sim} (h : PermEnt s s') (hu : UniqueIds s) : UniqueIds s' :=
  ⟨(h.vehicles.map _).nodup_iff.mp hu.vehicles, (h.stations.map _).nodup_iff.mp hu.stations,
   (h.bases.map _).nodup_iff.mp hu.bases, (h.requests.map _).nodup_iff.mp hu.requests⟩

theorem PermEnt.refl (s : Sim) : PermEnt s s :=
  ⟨rfl, rfl, .refl _, .refl _, .refl _, .refl _, .refl _, .refl _, .refl _, .refl _, .refl _⟩

/-- **not vacuous**: two hand-out orders of a two-station, two-vehicle state; the same station
    update succeeds on both and leads to related states -/
example :
    let st (i : Nat) : Station := { (default : Station) with id := i }
    let v (i : Nat) : Vehicle := { (default : Vehicle) with id := i }
    let s : Sim := { (default : Sim) with stations := [st 1, st 2], vehicles := [v 1, v 2] }
    let s' : Sim := { (default : Sim) with stations := [st 2, st 1], vehicles := [v 2, v 1] }
    PermEnt s s' ∧ UniqueIds s := by
  refine ⟨⟨rfl, rfl, ?_, ?_, .refl _, .refl _, .refl _, .refl _, .refl _, .refl _, .refl _⟩, ⟨?_, ?_, ?_, ?_⟩⟩
  · exact List.Perm.swap _ _ _
  · exact List.Perm.swap _ _ _
  all_goals decide


theorem entitiesAtCell_sameSets {a b : CollDict} (h : SameSets a b) (ents : List (Nat × Cell)) (sc : Cell) :
    Lookup.entitiesAtCell a ents sc = Lookup.entitiesAtCell b ents sc := by
  unfold Lookup.entitiesAtCell
  rw [(h sc).1]
  split
  · exact List.filter_congr (fun e _ => (h sc).2 e.1)
  · rfl

/-- **the ring search `H3Ops.nearest_entity` answers the same whatever the hash order inside the
    index**: its candidates are the entities of the id-sorted tuple that are *members* of a ring
    cell's id set, scanned in tuple order; the order of the id set is never seen (this is the site of
    defect F1, and what the seeded changes C01-2 and C01-11 undo) -/
theorem nearest_sameSets {a b : CollDict} (h : SameSets a b) (ents : List (Nat × Cell))
    (valid : Nat → Bool) (dist : Nat → Rat) (rings : List (List Cell)) :
    Lookup.nearest a ents valid dist rings = Lookup.nearest b ents valid dist rings := by
  induction rings with
  | nil => rfl
  | cons ring rest ih =>
    simp only [Lookup.nearest]
    have : ring.flatMap (Lookup.entitiesAtCell a ents) = ring.flatMap (Lookup.entitiesAtCell b ents) := by
      congr 1
      funext sc
      exact entitiesAtCell_sameSets h ents sc
    rw [this, ih]

/-- **not vacuous**: the same registrations in two orders (cells swapped, ids inside a cell swapped) -/
example : SameSets [(7, [1, 2]), (8, [3])] [(8, [3]), (7, [2, 1])] := by
  intro c
  by_cases h7 : c = 7
  · subst h7; exact ⟨by decide, fun i => by simp [CollDict.get, Bool.or_comm]⟩
  · by_cases h8 : c = 8
    · subst h8; exact ⟨by decide, fun i => by simp [CollDict.get]⟩
    · have h7' : (7 == c) = false := by simpa using fun h => h7 h.symm
      have h8' : (8 == c) = false := by simpa using fun h => h8 h.symm
      exact ⟨by simp [CollDict.has, h7', h8'], fun i => by simp [CollDict.get, h7', h8']⟩

end C01
end Hive
