/-
  C01 — the trip dispatcher's candidates and the verdict of the assignment checker under permutation.

  The candidates of one fleet (`vehiclesOf`, `requestsOf`: the eligibility filters over the vehicle
  and request maps) are the same *sets* for two hand-out orders of one state, and the checker that
  accepts the external solver's answer (`checkFleet`, `checkRun`: complete pairing of the smaller
  side with a dual certificate, C12) judges sets only. So what C12 certifies per run - a valid
  pairing of maximal size and minimal total distance - does not depend on the hash seed. (Which of
  several minimum-cost pairings the solver returns depends on the *order* of the cost table; the code
  sorts vehicles and requests by id before building it - iteration-site table - and the solver's
  determinism on equal inputs is exercised by the hash-seed runs.)
-/
import Properties.C01Prims
import Hive.Dispatch

namespace Hive
namespace C01
open Dispatch

theorem all_perm {α : Type} {l l' : List α} (h : l.Perm l') (p : α → Bool) : l.all p = l'.all p := by
  rw [Bool.eq_iff_iff]
  simp only [List.all_eq_true]
  exact ⟨fun hh x hx => hh x (h.mem_iff.mpr hx), fun hh x hx => hh x (h.mem_iff.mp hx)⟩

theorem contains_perm {l l' : List Nat} (h : l.Perm l') (x : Nat) : l.contains x = l'.contains x := by
  rw [Bool.eq_iff_iff]
  simp only [List.contains_iff_mem]
  exact h.mem_iff

theorem isPerm_perm {a l l' : List Nat} (h : l.Perm l') : a.isPerm l = a.isPerm l' := by
  rw [Bool.eq_iff_iff]
  simp only [List.isPerm_iff]
  exact ⟨fun hh => hh.trans h, fun hh => hh.trans h.symm⟩

theorem completeOk_perm {rows rows' cols cols' : List Nat} (hr : rows.Perm rows') (hc : cols.Perm cols')
    (m : List (Nat × Nat)) : completeOk rows cols m = completeOk rows' cols' m := by
  unfold completeOk
  rw [isPerm_perm hr]
  congr 1
  apply List.all_congr rfl
  intro x
  exact contains_perm hc x

theorem certOk_perm {rows rows' cols cols' : List Nat} (hr : rows.Perm rows') (hc : cols.Perm cols')
    (c : Nat → Nat → Int) (u v : Nat → Int) (m : List (Nat × Nat)) :
    certOk rows cols c u v m = certOk rows' cols' c u v m := by
  unfold certOk
  rw [all_perm hr, all_perm hc (fun j => decide (v j ≤ 0)),
    all_perm hc (fun j => (m.map (·.2)).contains j || decide (v j = 0))]
  congr 3
  apply List.all_congr rfl
  intro i
  exact all_perm hc _

/-- **the verdict of the assignment checker does not depend on the hand-out order of the vehicle and
    request maps**: the candidates are the same sets, and minimality / validity of a pairing is a
    statement about sets -/
theorem checkFleet_perm {s s' : Sim} (h : PermEnt s s') (cfg : DCfg) (range : VehicleId → Option Rat)
    (cost : VehicleId → RequestId → Int) (usedV : List VehicleId) (usedR : List RequestId) (a : Answer) :
    checkFleet cfg range cost s usedV usedR a = checkFleet cfg range cost s' usedV usedR a := by
  unfold checkFleet
  have hV : (vehiclesOf cfg range usedV a.fleet s).Perm (vehiclesOf cfg range usedV a.fleet s') :=
    (h.vehicles.filter _).map _
  have hR : (requestsOf usedR a.fleet s).Perm (requestsOf usedR a.fleet s') :=
    (h.requests.filter _).map _
  simp only [hV.length_eq, hR.length_eq]
  rw [completeOk_perm hV hR, certOk_perm hV hR, completeOk_perm hR hV, certOk_perm hR hV]

theorem checkRun_perm {s s' : Sim} (h : PermEnt s s') (cfg : DCfg) (range : VehicleId → Option Rat)
    (cost : VehicleId → RequestId → Int) (usedV : List VehicleId) (usedR : List RequestId) (as : List Answer) :
    checkRun cfg range cost s usedV usedR as = checkRun cfg range cost s' usedV usedR as := by
  induction as generalizing usedV usedR with
  | nil => rfl
  | cons a more ih => simp only [checkRun, checkFleet_perm h, ih]

end C01
end Hive
