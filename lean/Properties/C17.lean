/-
  Property C17 — a request's assigned vehicle is really on its way to it.

  `inv17` (Hive/Inv.lean, evaluated on implementation states): every waiting request that records
  a dispatched vehicle names a vehicle that exists and is in `DispatchTrip` to that very request.
  The proved inductive form `Inv17` also carries "a recorded request lies inside the geofence"
  (needed to show that the unassignment in `DispatchTrip.exit` cannot fail).

  Theorems: `Inv17` is preserved by every phase for every environment, every controller; in
  particular redirecting, stopping or running out of energy clears the record
  (`cleared_on_leave`). The clause "under the built-in dispatcher at most one vehicle travels to a
  request" rests on C12's `dispatch_valid` (only unassigned requests are targeted, each once per
  step) and is checked on implementation traces by the monitor; its Lean statement is
  `Hive.C17.unique_under_builtin` once proved (see DESIGN.md 3/C17 for the status).
-/
import Proofs.C17

namespace Hive
namespace C17

theorem runInv (env : Env) : RunInv env (Inv17 env) := inv17_runInv env

/-- **C17**: in every reachable state the executable monitor predicate holds -/
theorem reachable (env : Env) {s0 s : Sim} (hwf : s0.WF) (h0 : Inv17 env s0)
    (h : Reachable env s0 s) : inv17 s = true :=
  inv17_of_Inv17 (reachable_inv (runInv env) hwf h0 h)

/-- a freshly loaded simulation (no request records a vehicle) satisfies the invariant -/
theorem initial (env : Env) {s : Sim} (h : ∀ r ∈ s.requests, r.dispVeh = none) : Inv17 env s := by
  intro r hr v hv
  rw [h r hr] at hv
  cases hv

/-- whenever vehicle `v` leaves `DispatchTrip r` through a transition (instruction, default
    transition, or the out-of-energy path, which is a transition into `OutOfService`), no request
    records `v` afterwards unless the new activity is again a `DispatchTrip` -/
theorem cleared_on_leave (env : Env) {w w2 : World} {v : VehicleId} {veh : Vehicle} {next : Act}
    (hwf : w.sim.WF) (hinv : Inv17 env w.sim) (hveh : w.sim.vehicle? v = some veh)
    (hnext : ∀ rid route, next ≠ .dispatchTrip rid route)
    (h : transition env w v veh.act next = .ok w2) :
    ∀ r ∈ w2.sim.requests, r.dispVeh ≠ some v := by
  have hinv2 := transition_inv17 hwf hinv hveh h
  intro r hr hrec
  obtain ⟨⟨vu, ru, hvu, hau⟩, _⟩ := hinv2 r hr v hrec
  -- but `v` is now in `next` (or `ChargingStation` after the DispatchStation redirect)
  unfold transition at h
  simp only [Outcome.bind_eq, Outcome.bind_eq_ok] at h
  obtain ⟨s1, _, h2⟩ := h
  obtain ⟨_, veh', _, hn, _, _, hpost⟩ := enter_post h2
  rw [hn] at hvu
  cases hvu
  cases next <;> simp only [EnterPost] at hpost
  case idle => rw [hpost] at hau; cases hau
  case outOfService => rw [hpost] at hau; cases hau
  case repositioning => rw [hpost.1] at hau; cases hau
  case reserveBase => rw [hpost.1] at hau; cases hau
  case chargingStation => rw [hpost.1] at hau; cases hau
  case chargingBase => rw [hpost.1] at hau; cases hau
  case chargeQueueing => rw [hpost.1] at hau; cases hau
  case dispatchBase => rw [hpost.1] at hau; cases hau
  case servicingTrip => rw [hpost.1] at hau; cases hau
  case dispatchTrip rid route => exact hnext rid route rfl
  case dispatchStation =>
    obtain ⟨_, _, _, h1 | h1⟩ := hpost
    · rw [h1.1] at hau; cases hau
    · rw [h1.1] at hau; cases hau

/-! non-vacuity -/
private def p0 : Pos := ⟨0, 0⟩
private def veh (i : Nat) (a : Act) : Vehicle := ⟨i, p0, [], 0, ⟨1, 0, 0⟩, a, .autonomous, 0, 0⟩
private def rq (i : Nat) (d : Option Nat) : Request := ⟨i, p0, p0, 0, 1, [], false, 5, d, d.map fun _ => 0⟩
private def ex : Sim :=
  { time := 0, dt := 60,
    vehicles := [veh 0 (.dispatchTrip 1 []), veh 1 (.idle 0), veh 2 (.dispatchTrip 1 [])],
    stations := [], bases := [], requests := [rq 0 none, rq 1 (some 2)],
    applied := [], vIdx := ⟨[], []⟩, rIdx := ⟨[], []⟩, sIdx := ⟨[], []⟩, bIdx := ⟨[], []⟩ }
example : inv17 ex = true := by decide

end C17
end Hive
