/-
  Property C17 — a request's assigned vehicle is really on its way to it.

  `inv17` (Hive/Inv.lean, evaluated on implementation states): every waiting request that records
  a dispatched vehicle names a vehicle that exists and is in `DispatchTrip` to that very request.
  The proved inductive form `Inv17` also carries "a recorded request lies inside the geofence"
  (needed to show that the unassignment in `DispatchTrip.exit` cannot fail).

  Theorems: `Inv17` is preserved by every phase for every environment, every controller; in
  particular redirecting, stopping or running out of energy clears the record
  (`cleared_on_leave`). The clause "under the built-in dispatcher at most one vehicle travels to a
  request" is `unique_under_dispatcher`: in every state reachable by phases whose trip dispatches
  name only requests without a vehicle, pairwise distinct (every other instruction arbitrary), two
  vehicles travelling to the same waiting request are the same vehicle. That the built-in
  dispatcher's instructions have this shape is `dispatcher_instructions_ok`, derived from the
  checker of C12 (`checkRun`), which every run of the real dispatcher is put through.
-/
import Proofs.C17
import Proofs.C17u
import Properties.C12

namespace Hive
namespace C17

theorem runInv (env : Env) : RunInv env (Inv17 env) := inv17_runInv env

/-- **C17**: in every reachable state the executable monitor predicate holds -/
theorem reachable (env : Env) {s0 s : Sim} (hwf : s0.WF) (h0 : Inv17 env s0)
    (h : Reachable env s0 s) : inv17 s = true :=
  inv17_of_Inv17 (reachable_inv (runInv env) hwf h0 h)

/-- a freshly loaded simulation (no request records a vehicle) satisfies the invariant -/
theorem initial (env : Env) {s : Sim} (h : ∀ r ∈ s.requests, r.dispVeh = none) : Inv17 env s := by
  intro r hr v hv
  rw [h r hr] at hv
  cases hv

/-- whenever vehicle `v` leaves `DispatchTrip r` through a transition (instruction, default
    transition, or the out-of-energy path, which is a transition into `OutOfService`), no request
    records `v` afterwards unless the new activity is again a `DispatchTrip` -/
theorem cleared_on_leave (env : Env) {w w2 : World} {v : VehicleId} {veh : Vehicle} {next : Act}
    (hwf : w.sim.WF) (hinv : Inv17 env w.sim) (hveh : w.sim.vehicle? v = some veh)
    (hnext : ∀ rid route, next ≠ .dispatchTrip rid route)
    (h : transition env w v veh.act next = .ok w2) :
    ∀ r ∈ w2.sim.requests, r.dispVeh ≠ some v := by
  have hinv2 := transition_inv17 hwf hinv hveh h
  intro r hr hrec
  obtain ⟨⟨vu, ru, hvu, hau⟩, _⟩ := hinv2 r hr v hrec
  -- but `v` is now in `next` (or `ChargingStation` after the DispatchStation redirect)
  unfold transition at h
  simp only [Outcome.bind_eq, Outcome.bind_eq_ok] at h
  obtain ⟨s1, _, h2⟩ := h
  obtain ⟨_, veh', _, hn, _, _, hpost⟩ := enter_post h2
  rw [hn] at hvu
  cases hvu
  cases next <;> simp only [EnterPost] at hpost
  case idle => rw [hpost] at hau; cases hau
  case outOfService => rw [hpost] at hau; cases hau
  case repositioning => rw [hpost.1] at hau; cases hau
  case reserveBase => rw [hpost.1] at hau; cases hau
  case chargingStation => rw [hpost.1] at hau; cases hau
  case chargingBase => rw [hpost.1] at hau; cases hau
  case chargeQueueing => rw [hpost.1] at hau; cases hau
  case dispatchBase => rw [hpost.1] at hau; cases hau
  case servicingTrip => rw [hpost.1] at hau; cases hau
  case dispatchTrip rid route => exact hnext rid route rfl
  case dispatchStation =>
    obtain ⟨_, _, _, h1 | h1⟩ := hpost
    · rw [h1.1] at hau; cases hau
    · rw [h1.1] at hau; cases hau

/-! non-vacuity -/
private def p0 : Pos := ⟨0, 0⟩
private def veh (i : Nat) (a : Act) : Vehicle := ⟨i, p0, [], 0, ⟨1, 0, 0⟩, a, .autonomous, 0, 0⟩
private def rq (i : Nat) (d : Option Nat) : Request := ⟨i, p0, p0, 0, 1, [], false, 5, d, d.map fun _ => 0⟩
private def ex : Sim :=
  { time := 0, dt := 60,
    vehicles := [veh 0 (.dispatchTrip 1 []), veh 1 (.idle 0), veh 2 (.dispatchTrip 1 [])],
    stations := [], bases := [], requests := [rq 0 none, rq 1 (some 2)],
    applied := [], vIdx := ⟨[], []⟩, rIdx := ⟨[], []⟩, sIdx := ⟨[], []⟩, bIdx := ⟨[], []⟩ }
example : inv17 ex = true := by decide

/-- **at most one vehicle is travelling to any waiting request** in every state reachable under
    dispatcher-like control (`PhaseD`: trip dispatches only to requests without a vehicle, no two
    to the same request; all other instructions, oracle answers, arrivals and cancellations
    arbitrary), from any well-formed start in which it holds (e.g. one without travelling vehicles) -/
theorem unique_under_dispatcher {env : Env} {s0 s : Sim} (hwf : s0.WF) (hc : Conv s0) (h : ReachableD env s0 s)
    {u u' : VehicleId} {veh veh' : Vehicle} {rid : RequestId} {ro ro' : Route} {r : Request}
    (h1 : s.vehicle? u = some veh) (a1 : veh.act = .dispatchTrip rid ro)
    (h2 : s.vehicle? u' = some veh') (a2 : veh'.act = .dispatchTrip rid ro') (hr : s.request? rid = some r) : u = u' :=
  conv_unique (reachableD_conv hwf hc h).1 h1 a1 h2 a2 hr

/-- a start without travelling vehicles satisfies `Conv` -/
theorem conv_initial {s : Sim} (h : ∀ veh ∈ s.vehicles, ∀ rid route, veh.act ≠ .dispatchTrip rid route) : Conv s := by
  intro u veh rid route hu hact
  exact absurd hact (h veh (vehicle?_some hu).1 rid route)

/-- the instructions one accepted dispatcher run amounts to -/
def dispatcherInstrs (as : List Dispatch.Answer) : List Instr :=
  (C12.allPairs as).map fun p => Instr.dispatchTrip p.1 p.2

/-- every request paired in an accepted run has no vehicle assigned in the state -/
theorem run_pairs_waiting (cfg : Dispatch.DCfg) (range : VehicleId → Option Rat) (c : VehicleId → RequestId → Int)
    (s : Sim) (hwf : s.WF) (as : List Dispatch.Answer) :
    ∀ (usedV : List VehicleId) (usedR : List RequestId), Dispatch.checkRun cfg range c s usedV usedR as = true →
      ∀ p ∈ C12.allPairs as, ∀ req, s.request? p.2 = some req → req.dispVeh = none := by
  induction as with
  | nil => intro _ _ _ p hp; simp [C12.allPairs] at hp
  | cons a more ih =>
    intro usedV usedR h p hp req hreq
    simp only [Dispatch.checkRun, Bool.and_eq_true] at h
    have hall : C12.allPairs (a :: more) = a.pairs ++ C12.allPairs more := by simp [C12.allPairs]
    rw [hall] at hp
    rcases List.mem_append.mp hp with h1 | h1
    · obtain ⟨hval, _⟩ := C12.checkFleet_sound cfg range c s hwf usedV usedR a h.1
      obtain ⟨req', hm, hid, hnone, _⟩ := C12.paired_request_waiting usedR a.fleet s p.2
        (hval.rSub p.2 (List.mem_map.mpr ⟨p, h1, rfl⟩))
      have := lookup_of_mem (key := Request.id) hwf.req hm
      rw [hid] at this
      unfold Sim.request? at hreq
      rw [this] at hreq
      cases hreq
      exact hnone
    · exact ih _ _ h.2 p h1 req hreq

/-- **the built-in dispatcher's instructions have the shape `PhaseD` asks for**: one per vehicle,
    trip targets pairwise distinct, every target without a vehicle -/
theorem dispatcher_instructions_ok (cfg : Dispatch.DCfg) (range : VehicleId → Option Rat) (c : VehicleId → RequestId → Int)
    (s : Sim) (hwf : s.WF) (as : List Dispatch.Answer) (h : Dispatch.checkRun cfg range c s [] [] as = true) :
    ((dispatcherInstrs as).map Instr.vehicle).Nodup ∧
    ((dispatcherInstrs as).filterMap Instr.trip?).Nodup ∧
    ∀ rid ∈ (dispatcherInstrs as).filterMap Instr.trip?, ∀ req, s.request? rid = some req → req.dispVeh = none := by
  obtain ⟨hv, hr, _, _⟩ := C12.run_distinct cfg range c s hwf as [] [] h
  have e1 : (dispatcherInstrs as).map Instr.vehicle = (C12.allPairs as).map (·.1) := by
    simp [dispatcherInstrs, List.map_map, Function.comp_def, Instr.vehicle]
  have e2 : (dispatcherInstrs as).filterMap Instr.trip? = (C12.allPairs as).map (·.2) := by
    unfold dispatcherInstrs
    rw [List.filterMap_map]
    induction C12.allPairs as with
    | nil => rfl
    | cons p ps ih => simp only [List.filterMap_cons, Function.comp, Instr.trip?, List.map_cons, ih]
  refine ⟨by rw [e1]; exact hv, by rw [e2]; exact hr, ?_⟩
  intro rid hrid req hreq
  rw [e2] at hrid
  obtain ⟨p, hp, rfl⟩ := List.mem_map.mp hrid
  exact run_pairs_waiting cfg range c s hwf as [] [] h p hp req hreq

end C17
end Hive
