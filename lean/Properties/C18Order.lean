/-
  C18 — the processing-order monitor is the theorem's statement.

  Since the tenth seeded batch the order in which `perform_vehicle_state_updates` steps the vehicles
  is observed in the implementation and judged by `Hive.viol18Order` (`C18/processing-order`).
  `order_monitor_silent`: evaluated on the *model's* own order (`updateOrder`, unique ids), that
  monitor reports nothing - within a queue the earlier arrival (enqueue time, then id) is stepped
  first (`processing_order`), and every queueing vehicle is stepped after every vehicle that is not
  queueing (`updateOrder_eq`). So a report of the monitor on an observed order is a deviation from
  what is proved of the model, not an artefact of the monitor.
-/
import Proofs.C18
import Proofs.Lift
import Hive.Monitor

namespace Hive
namespace C18

/-- position of the first occurrence in a list of ids without repetition, read off a decomposition -/
theorem findIdx_of_split {l xs ys : List Nat} {a : Nat} (h : l = xs ++ a :: ys) (hn : a ∉ xs) :
    l.findIdx? (· == a) = some xs.length := by
  subst h
  induction xs with
  | nil => simp [List.findIdx?_cons]
  | cons x xs ih =>
    have hx : x ≠ a := fun e => hn (e ▸ List.mem_cons_self)
    have hn' : a ∉ xs := fun e => hn (List.mem_cons_of_mem _ e)
    simp only [List.cons_append, List.findIdx?_cons, beq_iff_eq, hx, if_false, ih hn']
    simp

/-- in a list without repetition, of two members the one that stands first has the smaller index -/
theorem idx_lt_of_split {l xs ys zs : List Nat} {a b : Nat} (hnd : l.Nodup)
    (h : l = xs ++ a :: ys ++ b :: zs) :
    ∃ i j, l.findIdx? (· == a) = some i ∧ l.findIdx? (· == b) = some j ∧ i < j := by
  subst h
  have hnd' : (xs ++ (a :: ys ++ b :: zs)).Nodup := by simpa [List.append_assoc] using hnd
  have h1 : a ∉ xs := by
    intro hm
    have := (List.nodup_append.mp hnd').2.2 a hm a (by simp)
    exact this rfl
  have h2 : b ∉ xs ++ a :: ys := by
    intro hm
    have hnd2 : ((xs ++ a :: ys) ++ b :: zs).Nodup := by simpa [List.append_assoc] using hnd
    have := (List.nodup_append.mp hnd2).2.2 b hm b (by simp)
    exact this rfl
  refine ⟨xs.length, (xs ++ a :: ys).length, ?_, ?_, ?_⟩
  · exact findIdx_of_split (ys := ys ++ b :: zs) (by simp [List.append_assoc]) h1
  · exact findIdx_of_split (xs := xs ++ a :: ys) (ys := zs) (by simp [List.append_assoc]) h2
  · simp


/-- ids of the model's processing order: no repetition -/
theorem order_ids_nodup {vs : List Vehicle} (hnd : (vs.map Vehicle.id).Nodup) :
    ((updateOrder vs).map (·.id)).Nodup :=
  ((updateOrder_perm vs).map _).nodup_iff.mpr hnd

theorem mem_queued {pre : Sim} {q : Vehicle} {s c : Nat} {t : Int}
    (h : (q, s, c, t) ∈ pre.vehicles.filterMap fun v =>
      match v.act with | .chargeQueueing s c t => some (v, s, c, t) | _ => none) :
    q ∈ pre.vehicles ∧ q.act = .chargeQueueing s c t := by
  obtain ⟨v, hv, hm⟩ := List.mem_filterMap.mp h
  cases ha : v.act with
  | chargeQueueing s0 c0 t0 =>
    simp only [ha, Option.some.injEq, Prod.mk.injEq] at hm
    obtain ⟨rfl, rfl, rfl, rfl⟩ := hm
    exact ⟨hv, ha⟩
  | _ => simp [ha] at hm

/-- **the monitor `viol18Order` (C18/processing-order), evaluated on the model's own processing order,
    is silent**: what the driver checks on the order observed in the implementation is what
    `processing_order` and `updateOrder_eq` say about the model -/
theorem order_monitor_silent (pre : Sim) (hnd : (pre.vehicles.map Vehicle.id).Nodup) :
    viol18Order pre ((updateOrder pre.vehicles).map (·.id)) = [] := by
  have hL := order_ids_nodup hnd
  unfold viol18Order
  simp only [List.append_eq_nil_iff, List.flatMap_eq_nil_iff]
  refine ⟨?_, ?_⟩
  · rintro ⟨q, s, c, t⟩ hq ⟨q', s', c', t'⟩ hq'
    obtain ⟨hqm, hqa⟩ := mem_queued hq
    obtain ⟨hqm', hqa'⟩ := mem_queued hq'
    simp only
    split
    · next hcond =>
      have hlt : t' < t ∨ (t' = t ∧ q'.id < q.id) := by
        simp only [Bool.and_eq_true, Bool.or_eq_true, beq_iff_eq, decide_eq_true_eq] at hcond
        exact hcond.2
      obtain ⟨p1, mid, post, hdec⟩ := queue_processing_order hqm' hqm hqa' hqa hlt
      have hsplit : (updateOrder pre.vehicles).map (·.id) =
          ((sortBy (fun a b => decide (a.id ≤ b.id)) (pre.vehicles.filter fun v =>
            !(match v.act with | .chargeQueueing _ _ _ => true | _ => false))).map (·.id) ++ p1.map (·.id)) ++
            q'.id :: mid.map (·.id) ++ q.id :: post.map (·.id) := by
        rw [updateOrder_eq, hdec]
        simp only [List.map_append, List.map_cons, List.append_assoc, List.cons_append]
        rfl
      obtain ⟨i, j, hi, hj, hij⟩ := idx_lt_of_split hL hsplit
      rw [hj, hi]
      simp only
      rw [if_neg (by omega)]
    · rfl
  · rintro ⟨q, s, c, t⟩ hq o ho
    obtain ⟨hqm, hqa⟩ := mem_queued hq
    simp only
    cases hoa : o.act with
    | chargeQueueing _ _ _ => rfl
    | _ =>
      all_goals
        simp only
        obtain ⟨A, hU, hoA⟩ : ∃ A, updateOrder pre.vehicles = A ++ queueOrder pre.vehicles ∧ o ∈ A :=
          ⟨_, updateOrder_eq _, by
            rw [(sortBy_perm _ _).mem_iff, List.mem_filter]; exact ⟨ho, by simp [hoa]⟩⟩
        have hqQ : q ∈ queueOrder pre.vehicles := by
          unfold queueOrder
          rw [(sortBy_perm _ _).mem_iff, List.mem_filter]; exact ⟨hqm, by simp [hqa]⟩
        obtain ⟨a1, a2, hA⟩ := List.append_of_mem hoA
        obtain ⟨q1, q2, hQ⟩ := List.append_of_mem hqQ
        have hsplit : (updateOrder pre.vehicles).map (·.id) =
            a1.map (·.id) ++ o.id :: (a2.map (·.id) ++ q1.map (·.id)) ++ q.id :: q2.map (·.id) := by
          rw [hU, hA, hQ]
          simp only [List.map_append, List.map_cons, List.append_assoc, List.cons_append]
        obtain ⟨i, j, hi, hj, hij⟩ := idx_lt_of_split hL hsplit
        rw [hj, hi]
        simp only
        rw [if_neg (by omega)]

end C18
end Hive
