/-
  Property C09 — instructions apply all-or-nothing, one per vehicle per step.

  * `rejected_changes_nothing` — a transition that is not accepted leaves the whole simulation
    state (entities, counters, request assignments, indexes, `applied_instructions`, reports)
    exactly as it was: `apply_instructions` continues from the unchanged state;
  * `accepted_enters_instructed` — an accepted instruction puts the vehicle in the instructed
    activity (the single documented redirect: `DispatchStation` issued at the station enters
    `ChargingStation`), with the guard facts of that activity, and is recorded as applied;
  * `independent` — an instruction that is dropped in pass 1 or rejected in pass 2 does not
    disturb the others: the result equals the result of the list without it;
  * `one_per_vehicle`, `last_generated_wins`, `driver_has_final_word` — the list handed to
    `apply_instructions` has at most one instruction per vehicle, namely the one pushed last;
    drivers are pushed after all generators.
-/
import Proofs.Stack
import Proofs.EnterPost

namespace Hive
namespace C09

/-- a plan whose transition is refused or fails is skipped: the state `w` is carried on unchanged -/
theorem rejected_changes_nothing (env : Env) (w : World) (i : Instr) (v : VehicleId) (prev next : Act)
    (ps : List (Instr × VehicleId × Act × Act))
    (h : ∀ w', transition env w v prev next ≠ .ok w') :
    applyPlans env w ((i, v, prev, next) :: ps) = applyPlans env w ps := by
  cases ht : transition env w v prev next with
  | ok w' => exact absurd ht (h w')
  | rejected => simp [applyPlans, ht]
  | error => simp [applyPlans, ht]

/-- in particular a single rejected instruction returns the incoming state itself -/
theorem single_rejected (env : Env) (w : World) (i : Instr)
    (h : ∀ v prev next, planInstr env w.sim i = .ok (v, prev, next) → ∀ w', transition env w v prev next ≠ .ok w') :
    applyInstructions env w [i] = w := by
  unfold applyInstructions
  simp only [planAll]
  split
  · next p hp =>
    obtain ⟨v, prev, next⟩ := p
    rw [rejected_changes_nothing env w i v prev next [] (h v prev next hp)]
    rfl
  · rfl

/-- an accepted instruction: the vehicle is in the instructed activity (or `ChargingStation`
    after the redirect) and the instruction is recorded in `applied_instructions` -/
theorem accepted_enters_instructed (env : Env) {w w' : World} {i : Instr} {v : VehicleId} {prev next : Act}
    (h : transition env w v prev next = .ok w') :
    (∃ veh', w'.sim.vehicle? v = some veh' ∧
      (veh'.act = next ∨ ∃ sid cid r, next = .dispatchStation sid cid r ∧ veh'.act = .chargingStation sid cid)) ∧
    (applyPlans env w [(i, v, prev, next)]).sim.applied = upsert (·.1) w'.sim.applied (i.vehicle, i) := by
  refine ⟨?_, by simp [applyPlans, h]⟩
  unfold transition at h
  simp only [Outcome.bind_eq, Outcome.bind_eq_ok] at h
  obtain ⟨s1, _, h2⟩ := h
  obtain ⟨_, veh', _, hn, _, _, hpost⟩ := enter_post h2
  refine ⟨veh', hn, ?_⟩
  cases next <;> simp only [EnterPost] at hpost
  case idle => exact Or.inl hpost
  case outOfService => exact Or.inl hpost
  case repositioning => exact Or.inl hpost.1
  case reserveBase => exact Or.inl hpost.1
  case chargingStation => exact Or.inl hpost.1
  case chargingBase => exact Or.inl hpost.1
  case chargeQueueing => exact Or.inl hpost.1
  case dispatchBase => exact Or.inl hpost.1
  case dispatchTrip => exact Or.inl hpost.1
  case servicingTrip => exact Or.inl hpost.1
  case dispatchStation sid cid r =>
    obtain ⟨_, _, _, h1 | h1⟩ := hpost
    · exact Or.inr ⟨sid, cid, r, rfl, h1.1⟩
    · exact Or.inl h1.1

theorem planAll_append (env : Env) (s : Sim) (a b : List Instr) :
    planAll env s (a ++ b) = planAll env s a ++ planAll env s b := by
  induction a with
  | nil => rfl
  | cons i is ih =>
    simp only [List.cons_append, planAll]
    split
    · simp [ih]
    · exact ih

theorem applyPlans_append (env : Env) (w : World) (a b : List (Instr × VehicleId × Act × Act)) :
    applyPlans env w (a ++ b) = applyPlans env (applyPlans env w a) b := by
  induction a generalizing w with
  | nil => rfl
  | cons p ps ih =>
    obtain ⟨i, v, prev, next⟩ := p
    simp only [List.cons_append, applyPlans]
    split
    · exact ih _
    · exact ih _

/-- **independence**: an instruction that is dropped (no plan) or whose transition is rejected
    when its turn comes leaves the outcome of all other instructions unchanged -/
theorem independent (env : Env) (w : World) (before after : List Instr) (i : Instr)
    (h : (∀ p, planInstr env w.sim i ≠ .ok p) ∨
         ∃ v prev next, planInstr env w.sim i = .ok (v, prev, next) ∧
           ∀ w', transition env (applyPlans env w (planAll env w.sim before)) v prev next ≠ .ok w') :
    applyInstructions env w (before ++ i :: after) = applyInstructions env w (before ++ after) := by
  unfold applyInstructions
  rw [planAll_append, planAll_append, applyPlans_append, applyPlans_append]
  rcases h with hno | ⟨v, prev, next, hp, hrej⟩
  · have : planAll env w.sim (i :: after) = planAll env w.sim after := by
      cases hp : planInstr env w.sim i with
      | ok p => exact absurd hp (hno p)
      | rejected => simp [planAll, hp]
      | error => simp [planAll, hp]
    rw [this]
  · have : planAll env w.sim (i :: after) = (i, v, prev, next) :: planAll env w.sim after := by
      simp only [planAll, hp]
    rw [this]
    exact rejected_changes_nothing env _ i v prev next _ hrej

/-- at most one instruction per vehicle reaches `apply_instructions` -/
theorem one_per_vehicle (gens : List (List Instr)) (drivers : List Instr) :
    ((finalInstructions gens drivers).map Instr.vehicle).Nodup :=
  finalInstructions_nodup gens drivers

/-- it is the one generated last for that vehicle (generators in order, then drivers) -/
theorem last_generated_wins (gens : List (List Instr)) (drivers : List Instr) (i : Instr) :
    i ∈ finalInstructions gens drivers ↔
      ((gens.flatten ++ drivers).filter (fun j => j.vehicle == i.vehicle)).getLast? = some i :=
  mem_finalInstructions gens drivers i

/-- the vehicle's own driver has the final word -/
theorem driver_has_final_word (gens : List (List Instr)) (drivers : List Instr) (d : Instr)
    (hd : (drivers.filter (fun j => j.vehicle == d.vehicle)).getLast? = some d) :
    d ∈ finalInstructions gens drivers := by
  rw [last_generated_wins, List.filter_append]
  have hne : drivers.filter (fun j => j.vehicle == d.vehicle) ≠ [] := by
    intro he; rw [he] at hd; cases hd
  rw [List.getLast?_append, hd]
  rfl

/-- the pipeline's instruction list satisfies the premise of every `apply_instructions` theorem -/
theorem pipeline_premise (gens : List (List Instr)) (drivers : List Instr) :
    ((finalInstructions gens drivers).map Instr.vehicle).Nodup := one_per_vehicle gens drivers

/-! non-vacuity: two generators and a driver compete for vehicle 1; vehicle 2 has one instruction -/
example : finalInstructions [[.idle 1, .reserveBase 2 0], [.outOfService 1]] [.dispatchBase 1 0] =
    [.reserveBase 2 0, .dispatchBase 1 0] := by decide

end C09
end Hive
