/-
  C11 — Timed inputs take effect exactly once, at the right step.

  "Each request in the input enters the simulation exactly once, in the first step that begins
   after its departure time (never before that time, and not at all if it has already expired),
   and a request nobody picked up is cancelled in the first step that begins at or after its
   departure time plus the cancellation timeout. Each charging-price entry takes effect in the
   first step that begins after its timestamp, on exactly the stations it names and the plug type
   it names, leaving every other price unchanged and never stopping the run."

  Model: `Hive/Timed.lean` (reader with look-ahead row, admission, cancellation, price update,
  pre-step phase). The theorems hold for every file, every start time and step length, every
  timeout and every behaviour of the rest of the step (`Rest`: requests only leave, C03).
  "Never stopping the run" is the totality of the model functions plus the correspondence check
  (an exception in the implementation is a reported violation `C11/run-stopped`).
-/
import Proofs.Timed

namespace Hive
namespace C11
open Timed

variable {env : Env}

/-! ### the reader: once, in order, in the first window after the key -/

/-- **no row is handed out twice and none is lost**, sorted file or not -/
theorem reader_once {α : Type} (key : α → Time) (ts : List Time) (r : Reader α) :
    (readAll key ts r).flatten ++ (readLeft key ts r).pending = r.pending :=
  readAll_partition key ts r

/-- start times of `n` successive steps -/
def times (t0 : Time) (dt : Nat) (n : Nat) : List Time := (List.range n).map (stepTime t0 dt)

theorem times_getElem? (t0 : Time) (dt n k : Nat) :
    (times t0 dt n)[k]? = if k < n then some (stepTime t0 dt k) else none := by
  unfold times
  by_cases h : k < n <;> simp [h, List.getElem?_range]

theorem stepTime_succ (t0 : Time) (dt k : Nat) : stepTime (t0 + dt) dt k = stepTime t0 dt (k + 1) := by
  simp only [stepTime, Int.natCast_add, Int.natCast_one, Int.add_mul, Int.one_mul]
  rw [Int.add_assoc, Int.add_comm (dt : Int)]

theorem stepTime_zero (t0 : Time) (dt : Nat) : stepTime t0 dt 0 = t0 := by simp [stepTime]

theorem stepTime_mono (t0 : Time) (dt : Nat) {j k : Nat} (h : j ≤ k) : stepTime t0 dt j ≤ stepTime t0 dt k := by
  unfold stepTime
  have : (j : Int) * (dt : Int) ≤ (k : Int) * (dt : Int) :=
    Int.mul_le_mul_of_nonneg_right (by omega) (by omega)
  exact Int.add_le_add_left this t0

/-- **a row of a sorted file is handed out in step `k` exactly when step `k` is the first step
    that begins after the row's time** (`k = 0`, or step `k-1` began no later than the row's time) -/
theorem reader_window {α : Type} (key : α → Time) (t0 : Time) (dt n : Nat) (r : Reader α)
    (hs : Sorted key r.pending) (k : Nat) (hk : k < n) (x : α) :
    x ∈ ((readAll key (times t0 dt n) r)[k]?).getD [] ↔
      x ∈ r.pending ∧ key x < stepTime t0 dt k ∧ (k = 0 ∨ stepTime t0 dt (k - 1) ≤ key x) := by
  rw [readAll_eq_windows key _ r hs]
  have hlen : ∀ (ts : List Time) (l : List α), (windows key ts l).length = ts.length := by
    intro ts
    induction ts with
    | nil => intro l; rfl
    | cons t ts ih => intro l; simp [windows, ih]
  have hk' : k < (windows key (times t0 dt n) r.pending).length := by
    rw [hlen]; simp [times, hk]
  have hw : (windows key (times t0 dt n) r.pending)[k]? = some ((windows key (times t0 dt n) r.pending)[k]) :=
    List.getElem?_eq_getElem hk'
  rw [hw, Option.getD_some, mem_windows key _ _ k _ hw x]
  constructor
  · rintro ⟨hx, ⟨t, ht, hlt⟩, hall⟩
    rw [times_getElem?, if_pos hk] at ht
    cases ht
    refine ⟨hx, hlt, ?_⟩
    cases k with
    | zero => exact Or.inl rfl
    | succ k =>
      right
      exact hall k (by omega) _ (by rw [times_getElem?, if_pos (by omega)]; rfl)
  · rintro ⟨hx, hlt, hprev⟩
    refine ⟨hx, ⟨_, by rw [times_getElem?, if_pos hk], hlt⟩, ?_⟩
    intro j hj t ht
    rw [times_getElem?, if_pos (by omega)] at ht
    cases ht
    rcases hprev with rfl | hprev
    · omega
    · exact Int.le_trans (stepTime_mono t0 dt (by omega)) hprev

/-! ### one pre-step phase -/

/-- **admission**: of the rows read in this step exactly the admissible ones (parsed, not yet
    expired, fleet tag consistent) are added, once each, in file order, with one add event each -/
theorem admission_step (cfg : Cfg) (hf : ∀ c, env.inFence c = true) (rd : Reader ReqRow) (w : World)
    (hI : RInv env w.sim)
    (hnd : ((rd.read (fun r => r.req.departure) w.sim.time).1.map (·.req.id)).Nodup)
    (hfresh : ∀ row ∈ (rd.read (fun r => r.req.departure) w.sim.time).1, row.req.id ∉ w.sim.requests.map (·.id)) :
    (admitRequests env cfg rd w).1.sim.requests = w.sim.requests ++
      (((rd.read (fun r => r.req.departure) w.sim.time).1.filter (admissible cfg w.sim.time)).map (·.req)) ∧
    (admitRequests env cfg rd w).1.log = w.log ++
      (((rd.read (fun r => r.req.departure) w.sim.time).1.filter (admissible cfg w.sim.time)).map
        (fun r => Event.addRequest r.req.id)) := by
  obtain ⟨_, _, h3, h4, _⟩ := admitRows_spec cfg hf _ w hI hnd hfresh
  exact ⟨h3, h4⟩

/-- an admissible row is not expired: admission and cancellation never hit one request in one step -/
theorem admissible_not_expired {cfg : Cfg} {now : Time} {row : ReqRow} (h : admissible cfg now row = true) :
    expired cfg now row.req = false := by
  unfold admissible at h
  unfold expired
  simp only [Bool.and_eq_true, decide_eq_true_eq] at h
  simp [h.1.2]

/-- **cancellation**: exactly the requests whose departure time plus the timeout is not after the
    start of the step leave, one cancel event each; all others stay -/
theorem cancellation_step (cfg : Cfg) (w : World) (hI : RInv env w.sim) :
    (cancelRequests env cfg w).sim.requests =
      w.sim.requests.filter (fun r => decide (w.sim.time < r.departure + cfg.timeout)) ∧
    (∀ i, Event.cancelRequest i ∈ (cancelRequests env cfg w).log ↔
      Event.cancelRequest i ∈ w.log ∨
        ∃ r ∈ w.sim.requests, r.id = i ∧ ¬ w.sim.time < r.departure + cfg.timeout) := by
  obtain ⟨_, _, h3, h4, _⟩ := cancelRequests_spec (env := env) cfg w hI
  refine ⟨?_, ?_⟩
  · rw [h3]
    apply List.filter_congr
    intro r _
    simp [expired]
  · intro i
    rw [h4, List.mem_append]
    have hperm := sortBy_perm (fun (a b : Nat) => decide (a ≤ b)) (w.sim.requests.map (·.id))
    constructor
    · rintro (h | h)
      · exact Or.inl h
      · right
        obtain ⟨j, hj, he⟩ := List.mem_map.mp h
        cases he
        obtain ⟨_, hexp⟩ := List.mem_filter.mp hj
        unfold expiredId at hexp
        split at hexp
        · next r hr =>
          obtain ⟨hm, hid⟩ := lookup_some hr
          exact ⟨r, hm, hid, by simpa [expired] using hexp⟩
        · cases hexp
    · rintro (h | ⟨r, hm, hid, hlt⟩)
      · exact Or.inl h
      · right
        refine List.mem_map.mpr ⟨i, List.mem_filter.mpr ⟨?_, ?_⟩, rfl⟩
        · exact hperm.mem_iff.mpr (List.mem_map.mpr ⟨r, hm, hid⟩)
        · have := lookup_of_mem (key := Request.id) hI.nodup hm
          rw [hid] at this
          unfold expiredId Sim.request?
          rw [this]
          simpa [expired] using hlt

/-! ### prices -/

/-- **a price update changes plug prices and nothing else**: vehicles, requests, bases, clock, the
    station list's ids; and within a station only `price` fields -/
theorem price_update_frame (names : Nat → List StationId) (rd : Reader PriceRow) (s : Sim)
    (hf : ∀ c, env.inFence c = true) (hstn : (s.stations.map Station.id).Nodup) :
    (priceUpdate env names rd s).1.requests = s.requests ∧ (priceUpdate env names rd s).1.vehicles = s.vehicles ∧
    (priceUpdate env names rd s).1.bases = s.bases ∧ (priceUpdate env names rd s).1.time = s.time ∧
    (priceUpdate env names rd s).1.dt = s.dt ∧ (priceUpdate env names rd s).1.rIdx = s.rIdx ∧
    (priceUpdate env names rd s).1.stations =
      s.stations.map (fun st => if touched names (rd.read (·.time) s.time).1 st.id
        then repriced names (rd.read (·.time) s.time).1 st else st) := by
  unfold priceUpdate
  simp only
  obtain ⟨h1, h2, h3, h4, h5, h6, h7⟩ :=
    repriceFold_spec (env := env) names (rd.read (·.time) s.time).1 (s.stations.map (·.id)) s hf hstn hstn
  refine ⟨h2, h4, h5, h6, h7, h3, ?_⟩
  rw [h1]
  apply List.map_congr_left
  intro st hm
  have : (s.stations.map (·.id)).contains st.id = true :=
    List.contains_iff_mem.mpr (List.mem_map.mpr ⟨st, hm, rfl⟩)
  rw [this, Bool.true_and]

/-- static part of a plug: everything but the price -/
def plugRest (c : ChargerState) : ChargerId × Bool × Rat × Nat × Nat × Nat := (c.id, c.electric, c.rate, c.total, c.avail, c.enq)

/-- **the price of a plug after the update**: the deciding row's price when some row of the window
    names this station and plug type, the old price otherwise; nothing else about the plug moves -/
theorem price_after (names : Nat → List StationId) (rows : List PriceRow) (st : Station) :
    (repriced names rows st).id = st.id ∧ (repriced names rows st).pos = st.pos ∧
    (repriced names rows st).members = st.members ∧ (repriced names rows st).onShift = st.onShift ∧
    (repriced names rows st).balance = st.balance ∧
    (repriced names rows st).plugs.map plugRest = st.plugs.map plugRest ∧
    (repriced names rows st).plugs.map (·.price) = st.plugs.map (fun c =>
      match winner names rows st.id c.id with
      | some r => r.price
      | none => c.price) := by
  refine ⟨rfl, rfl, rfl, rfl, rfl, ?_, ?_⟩
  · unfold repriced
    simp only [List.map_map]
    apply List.map_congr_left
    intro c _
    simp only [Function.comp]
    cases winner names rows st.id c.id <;> rfl
  · unfold repriced
    simp only [List.map_map]
    apply List.map_congr_left
    intro c _
    simp only [Function.comp]
    cases winner names rows st.id c.id <;> rfl

/-- an untouched station is returned as it is -/
theorem repriced_untouched (names : Nat → List StationId) (rows : List PriceRow) (st : Station)
    (h : touched names rows st.id = false) : repriced names rows st = st := by
  have hw : ∀ c ∈ st.plugs, winner names rows st.id c.id = none := by
    intro c _
    rw [winner_none_iff]
    intro r hr
    have := List.any_eq_false.mp h r hr
    unfold PriceRow.hits
    cases hv : r.valid <;> simp_all
  obtain ⟨id, pos, members, plugs, onShift, balance, dispE, dispG⟩ := st
  simp only [repriced, Station.mk.injEq, true_and, and_true]
  conv => rhs; rw [← List.map_id plugs]
  apply List.map_congr_left
  intro c hc
  rw [hw c hc]
  rfl

/-- the deciding row names the station and the plug type; when no row does, the price stays;
    when all rows that do share one key, the latest of them decides -/
theorem price_decided_by :
    (∀ (names : Nat → List StationId) rows sid p r, winner names rows sid p = some r →
      r ∈ rows ∧ r.valid = true ∧ sid ∈ names r.key ∧ r.plug = p) ∧
    (∀ (names : Nat → List StationId) rows sid p,
      winner names rows sid p = none ↔ ∀ r ∈ rows, r.hits names sid p = false) ∧
    (∀ (names : Nat → List StationId) rows sid p, unambiguous names rows sid p = true →
      winner names rows sid p = (rows.filter (PriceRow.hits names sid p)).getLast?) := by
  refine ⟨?_, fun _ _ _ _ => winner_none_iff, fun _ _ _ _ h => winner_unambiguous h⟩
  intro names rows sid p r h
  obtain ⟨hm, hh⟩ := winner_some h
  unfold PriceRow.hits at hh
  simp only [Bool.and_eq_true, beq_iff_eq] at hh
  exact ⟨hm, hh.1.1, by simpa using hh.1.2, hh.2⟩

/-! ### whole runs: any rest-of-step behaviour between the pre-step phases -/

/-- what the rest of a step (instructions, vehicle updates, tick) may do as far as timed inputs
    care: request ids only leave (`Hive.C03.requests_change_only_by`; the records may be
    re-written, e.g. with the vehicle dispatched to them), the id and index structure
    survives (C08), the clock advances by one step length (C15) -/
structure Rest (env : Env) (b : Sim → Sim) : Prop where
  keeps : ∀ s, RInv env s → (s.stations.map Station.id).Nodup →
    RInv env (b s) ∧ ((b s).stations.map Station.id).Nodup
  sub : ∀ s, ∀ i ∈ (b s).requests.map (·.id), i ∈ s.requests.map (·.id)
  time : ∀ s, (b s).time = s.time + s.dt
  dt : ∀ s, (b s).dt = s.dt

/-- worlds after the pre-step phase of each step (event log restarted every step) -/
def runG (env : Env) (cfg : Cfg) (names : Nat → List StationId) : List (Sim → Sim) → Inputs → Sim → List World
  | [], _, _ => []
  | b :: bs, inp, s =>
    (preStep env cfg names inp ⟨s, []⟩).1 ::
      runG env cfg names bs (preStep env cfg names inp ⟨s, []⟩).2 (b (preStep env cfg names inp ⟨s, []⟩).1.sim)

def addsOf (l : List Event) : List RequestId := l.filterMap fun | .addRequest r => some r | _ => none

theorem addsOf_append (a b : List Event) : addsOf (a ++ b) = addsOf a ++ addsOf b := by
  unfold addsOf; rw [List.filterMap_append]

theorem addsOf_adds (rows : List ReqRow) : addsOf (rows.map (fun r => Event.addRequest r.req.id)) = rows.map (·.req.id) := by
  unfold addsOf
  induction rows with
  | nil => rfl
  | cons r rs ih => simp only [List.map_cons, List.filterMap_cons, ih]

theorem addsOf_cancels (ids : List RequestId) : addsOf (ids.map Event.cancelRequest) = [] := by
  unfold addsOf
  induction ids with
  | nil => rfl
  | cons r rs ih => simp only [List.map_cons, List.filterMap_cons, ih]

/-- one pre-step phase, composed -/
theorem preStep_spec (cfg : Cfg) (names : Nat → List StationId) (hf : ∀ c, env.inFence c = true)
    (inp : Inputs) (s : Sim) (hI : RInv env s) (hwf : (s.stations.map Station.id).Nodup)
    (hnd : ((inp.requests.read (fun r => r.req.departure) s.time).1.map (·.req.id)).Nodup)
    (hfresh : ∀ row ∈ (inp.requests.read (fun r => r.req.departure) s.time).1, row.req.id ∉ s.requests.map (·.id)) :
    RInv env (preStep env cfg names inp ⟨s, []⟩).1.sim ∧
    (preStep env cfg names inp ⟨s, []⟩).1.sim.time = s.time ∧
    (preStep env cfg names inp ⟨s, []⟩).1.sim.dt = s.dt ∧
    (preStep env cfg names inp ⟨s, []⟩).1.sim.vehicles = s.vehicles ∧
    (preStep env cfg names inp ⟨s, []⟩).1.sim.requests =
      (s.requests ++ ((inp.requests.read (fun r => r.req.departure) s.time).1.filter (admissible cfg s.time)).map (·.req)).filter
        (fun r => decide (s.time < r.departure + cfg.timeout)) ∧
    addsOf (preStep env cfg names inp ⟨s, []⟩).1.log =
      ((inp.requests.read (fun r => r.req.departure) s.time).1.filter (admissible cfg s.time)).map (·.req.id) ∧
    (preStep env cfg names inp ⟨s, []⟩).2.requests = (inp.requests.read (fun r => r.req.departure) s.time).2 ∧
    (preStep env cfg names inp ⟨s, []⟩).1.sim.stations =
      s.stations.map (fun st => if touched names (inp.prices.read (·.time) s.time).1 st.id
        then repriced names (inp.prices.read (·.time) s.time).1 st else st) := by
  obtain ⟨p1, p2, p3, p4, p5, p6, p7⟩ := price_update_frame (env := env) names inp.prices s hf hwf
  have hI1 : RInv env (priceUpdate env names inp.prices s).1 := by
    refine ⟨by rw [p1]; exact hI.nodup, ?_⟩
    have : cellOfReq (priceUpdate env names inp.prices s).1 = cellOfReq s := by
      unfold cellOfReq Sim.request?; rw [p1]
    rw [this, p6]; exact hI.idx
  unfold preStep
  simp only
  unfold admitRequests
  simp only [p4]
  obtain ⟨a1, a2, a3, a4, a5, a6, a7⟩ := admitRows_spec (env := env) cfg hf
    (inp.requests.read (fun r => r.req.departure) s.time).1
    { sim := (priceUpdate env names inp.prices s).1, log := [] } hI1 hnd (by simpa only [p1] using hfresh)
  simp only at a1 a2 a3 a4 a5 a6 a7
  obtain ⟨c1, c2, c3, c4, c5, c6, c7⟩ := cancelRequests_spec (env := env) cfg _ a1
  refine ⟨c1, ?_, ?_, ?_, ?_, ?_, by first | rfl | trivial, ?_⟩
  · rw [c2, a2, p4]
  · rw [c7, a7, p5]
  · rw [c6, a6, p2]
  · rw [c3, a3, a2, p4, p1]
    apply List.filter_congr
    intro r _
    simp [expired]
  · rw [c4, a4, p4, addsOf_append, addsOf_append, addsOf_cancels, addsOf_adds]
    simp [addsOf]
  · rw [c5, a5, p7]

/-- **run-level admission**: in a run of any number of steps, with any behaviour of the rest of
    each step, the requests admitted in step `k` are exactly the admissible rows of the `k`-th
    reader window (see `reader_window` for which rows those are) - so every row is admitted at
    most once, in the first step that begins after its departure time, and never if it is already
    expired then. The clock of step `k` is `start + k·dt`. -/
theorem run_admissions (cfg : Cfg) (names : Nat → List StationId) (hf : ∀ c, env.inFence c = true)
    (bs : List (Sim → Sim)) (hb : ∀ b ∈ bs, Rest env b) (inp : Inputs) (s : Sim) (hI : RInv env s)
    (hwf : (s.stations.map Station.id).Nodup)
    (hsorted : Sorted (fun r : ReqRow => r.req.departure) inp.requests.pending)
    (hnd : (inp.requests.pending.map (·.req.id)).Nodup)
    (hfresh : ∀ row ∈ inp.requests.pending, row.req.id ∉ s.requests.map (·.id)) :
    ∀ k W, (runG env cfg names bs inp s)[k]? = some W →
      W.sim.time = stepTime s.time s.dt k ∧
      addsOf W.log = ((((readAll (fun r : ReqRow => r.req.departure) (times s.time s.dt bs.length) inp.requests)[k]?).getD []).filter
        (admissible cfg (stepTime s.time s.dt k))).map (·.req.id) := by
  induction bs generalizing inp s with
  | nil => intro k W h; simp [runG] at h
  | cons b bs ih =>
    intro k W h
    have hread := read_fst (fun r : ReqRow => r.req.departure) s.time inp.requests
    have hsub : ((inp.requests.read (fun r => r.req.departure) s.time).1).Sublist inp.requests.pending := by
      rw [hread]; exact List.takeWhile_sublist _
    have hnd1 := List.Nodup.sublist (List.Sublist.map (·.req.id) hsub) hnd
    have hfresh1 : ∀ row ∈ (inp.requests.read (fun r => r.req.departure) s.time).1, row.req.id ∉ s.requests.map (·.id) :=
      fun row hm => hfresh row (hsub.subset hm)
    obtain ⟨q1, q2, q3, q4, q5, q6, q7, q8⟩ := preStep_spec (env := env) cfg names hf inp s hI hwf hnd1 hfresh1
    have htimes : times s.time s.dt (bs.length + 1) = s.time :: times (s.time + s.dt) s.dt bs.length := by
      unfold times
      rw [List.range_succ_eq_map, List.map_cons, List.map_map]
      congr 1
      · simp [stepTime]
      · apply List.map_congr_left
        intro j _
        simp only [Function.comp]
        exact (stepTime_succ s.time s.dt j).symm
    cases k with
    | zero =>
      simp only [runG, List.getElem?_cons_zero, Option.some.injEq] at h
      subst h
      refine ⟨by rw [q2, stepTime_zero], ?_⟩
      simp only [List.length_cons]
      rw [q6, htimes, stepTime_zero]
      simp [readAll]
    | succ k =>
      simp only [runG, List.getElem?_cons_succ] at h
      have hR := hb b List.mem_cons_self
      -- the state handed to the next step
      have hstn1 : ((preStep env cfg names inp ⟨s, []⟩).1.sim.stations.map Station.id).Nodup := by
        rw [q8, List.map_map]
        have : (Station.id ∘ fun st => if touched names (inp.prices.read (·.time) s.time).1 st.id
            then repriced names (inp.prices.read (·.time) s.time).1 st else st) = Station.id := by
          funext st; simp only [Function.comp]; split <;> rfl
        rw [this]; exact hwf
      obtain ⟨hI2, hstn2⟩ := hR.keeps _ q1 hstn1
      have hpend : (inp.requests.read (fun r => r.req.departure) s.time).2.pending =
          inp.requests.pending.dropWhile (fun x => decide (x.req.departure < s.time)) :=
        read_pending (fun r : ReqRow => r.req.departure) s.time inp.requests
      have hsub2 : ((inp.requests.read (fun r => r.req.departure) s.time).2.pending).Sublist inp.requests.pending := by
        rw [hpend]; exact List.dropWhile_sublist _
      have hsplit : inp.requests.pending = (inp.requests.read (fun r => r.req.departure) s.time).1 ++
          (inp.requests.read (fun r => r.req.departure) s.time).2.pending := by
        rw [hread, hpend, List.takeWhile_append_dropWhile]
      have hdisj : ∀ row ∈ (inp.requests.read (fun r => r.req.departure) s.time).2.pending,
          ∀ row' ∈ (inp.requests.read (fun r => r.req.departure) s.time).1, row.req.id ≠ row'.req.id := by
        intro row hm row' hm' he
        rw [hsplit, List.map_append, List.nodup_append] at hnd
        exact hnd.2.2 _ (List.mem_map.mpr ⟨row', hm', rfl⟩) _ (List.mem_map.mpr ⟨row, hm, rfl⟩) he.symm
      have hfresh2 : ∀ row ∈ (preStep env cfg names inp ⟨s, []⟩).2.requests.pending,
          row.req.id ∉ (b (preStep env cfg names inp ⟨s, []⟩).1.sim).requests.map (·.id) := by
        intro row hm hin
        rw [q7] at hm
        obtain ⟨r, hr1, hid⟩ := List.mem_map.mp (hR.sub _ _ hin)
        rw [q5] at hr1
        have hr2 := (List.mem_filter.mp hr1).1
        rcases List.mem_append.mp hr2 with h0 | h0
        · exact hfresh row (hsub2.subset hm) (List.mem_map.mpr ⟨r, h0, hid⟩)
        · obtain ⟨row', hrow', he⟩ := List.mem_map.mp h0
          have := hdisj row hm row' (List.mem_filter.mp hrow').1
          apply this
          rw [← hid, ← he]
      have hsorted2 : Sorted (fun r : ReqRow => r.req.departure) (preStep env cfg names inp ⟨s, []⟩).2.requests.pending := by
        rw [q7]; exact List.Pairwise.sublist hsub2 hsorted
      have hnd2 : ((preStep env cfg names inp ⟨s, []⟩).2.requests.pending.map (·.req.id)).Nodup := by
        rw [q7]; exact List.Nodup.sublist (List.Sublist.map _ hsub2) hnd
      obtain ⟨r1, r2⟩ := ih (fun b' hb' => hb b' (List.mem_cons_of_mem _ hb')) _ _ hI2 hstn2 hsorted2 hnd2 hfresh2 k W h
      have htime : (b (preStep env cfg names inp ⟨s, []⟩).1.sim).time = s.time + s.dt := by
        rw [hR.time, q2, q3]
      have hdt : (b (preStep env cfg names inp ⟨s, []⟩).1.sim).dt = s.dt := by rw [hR.dt, q3]
      have hst : stepTime (s.time + s.dt) s.dt k = stepTime s.time s.dt (k + 1) := stepTime_succ _ _ _
      rw [htime, hdt, hst] at r1 r2
      refine ⟨r1, ?_⟩
      simp only [List.length_cons]
      rw [r2, htimes, q7]
      simp [readAll]

/-! ### the statements are not vacuous: concrete windows -/

/-- rows at 3, 10, 10, 15, 25 read at step starts 10, 20: the first window is `[3]` (10 is not
    *after* 10), the second `[10, 10, 15]`, 25 stays pending as the look-ahead row -/
example : readAll (fun x : Int => x) [10, 20] ⟨none, [3, 10, 10, 15, 25]⟩ = [[3], [10, 10, 15]] ∧
    (readLeft (fun x : Int => x) [10, 20] ⟨none, [3, 10, 10, 15, 25]⟩).history = some 25 := by decide

example : firstAfter 0 60 10 59 = some 1 ∧ firstAfter 0 60 10 60 = some 2 ∧ firstAfter 100 60 10 3 = some 0 ∧
    firstAtOrAfter 0 60 10 60 = some 1 := by decide

end C11
end Hive
