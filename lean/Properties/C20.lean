/-
  C20 — Human drivers follow their shift schedule.

  "A human-driven vehicle is available for work in a step exactly when the simulation time at the
   start of that step lies inside its shift (start inclusive, end exclusive, shifts may wrap past
   midnight); a shift on/off event is reported exactly when availability flips; and the built-in
   dispatcher never assigns a new request to a driver who is off shift."

  Model: `Hive/Shift.lean`. The first two clauses are `driver_phase` below (for every fleet, shift
  table, clock value and previous availability) together with `driver_untouched` (nothing but the
  driver phase ever changes a driver state); the third clause is `Hive.C12.dispatch_available`
  (the dispatcher only pairs vehicles whose driver is available) and is monitored on the real
  dispatcher's output by this check.
-/
import Hive.Shift
import Proofs.PerVehicle
import Proofs.C08

namespace Hive
namespace C20
open Shift

variable {env : Env}

/-! ### the shift predicate -/

theorem tod_range (t : Time) : 0 ≤ tod t ∧ tod t < 86400 := by
  unfold tod day
  constructor
  · exact Int.emod_nonneg _ (by decide)
  · exact Int.emod_lt_of_pos _ (by decide)

/-- the time of day repeats every 86400 seconds: schedules are daily -/
theorem tod_periodic (t : Time) (k : Int) : tod (t + k * 86400) = tod t := by
  unfold tod day
  rw [Int.add_mul_emod_self_right]

/-- an ordinary shift `start ≤ stop`: on exactly in `[start, stop)` (empty when `start = stop`) -/
theorem inRange_plain {start stop x : Int} (h : start ≤ stop) :
    inRange start stop x = true ↔ start ≤ x ∧ x < stop := by
  unfold inRange
  simp [h]

/-- a shift that wraps past midnight (`start > stop`): off exactly in `[stop, start)` -/
theorem inRange_wrap {start stop x : Int} (h : stop < start) :
    inRange start stop x = true ↔ ¬ (stop ≤ x ∧ x < start) := by
  unfold inRange
  have : ¬ start ≤ stop := by omega
  simp only [this, if_false, Bool.or_eq_true, decide_eq_true_eq]
  omega

/-- the boundaries: the first second of the shift is on, the end second is off -/
theorem inRange_boundaries {start stop : Int} (h : start ≠ stop) :
    inRange start stop start = true ∧ inRange start stop stop = false := by
  unfold inRange
  by_cases hle : start ≤ stop
  · have : start < stop := by omega
    simp [hle, this]
  · have : stop < start := by omega
    simp [hle]
    try omega

/-! ### one driver phase -/

/-- the vehicle record after the phase -/
def upd (tbl : List Entry) (t : Time) (v : Vehicle) : Vehicle := { v with driver := expectedDriver tbl t v.driver }

/-- did the phase flip this vehicle's availability? -/
def flipped (tbl : List Entry) (t : Time) (v : Vehicle) : Bool :=
  match v.driver with
  | .autonomous => false
  | .human a s _ _ => want tbl t a s != a

def eventOf (tbl : List Entry) (t : Time) (v : Vehicle) : Event :=
  match v.driver with
  | .autonomous => .shift v.id true
  | .human a s _ _ => .shift v.id (want tbl t a s)

theorem upd_id (tbl : List Entry) (t : Time) (v : Vehicle) : (upd tbl t v).id = v.id := rfl

theorem upd_of_not_flipped {tbl : List Entry} {t : Time} {v : Vehicle} (h : flipped tbl t v = false) :
    upd tbl t v = v := by
  obtain ⟨id, pos, members, mech, en, act, driver, balance, odo⟩ := v
  unfold upd
  simp only [Vehicle.mk.injEq, true_and, and_true]
  cases driver with
  | autonomous => rfl
  | human a s hm p =>
    simp only [flipped, bne_eq_false_iff_eq] at h
    simp only [expectedDriver, h]

def withDriver (v : Vehicle) (d : Driver) : Vehicle := { v with driver := d }
def withVehicles (s : Sim) (vs : List Vehicle) : Sim := { s with vehicles := vs }

/-- one vehicle's driver update, when the vehicle's record is still the one the phase began with -/
theorem driverUpdate_spec (tbl : List Entry) (s0 : Sim) (w : World) (veh : Vehicle)
    (hf : ∀ c, env.inFence c = true) (hnd : (w.sim.vehicles.map Vehicle.id).Nodup) (hm : veh ∈ w.sim.vehicles) :
    (driverUpdate env tbl s0 w veh).sim.vehicles =
      w.sim.vehicles.map (fun y => if y.id == veh.id then upd tbl w.sim.time y else y) ∧
    (driverUpdate env tbl s0 w veh).log = w.log ++ (if flipped tbl w.sim.time veh then [eventOf tbl w.sim.time veh] else []) ∧
    (driverUpdate env tbl s0 w veh).sim.time = w.sim.time ∧
    (driverUpdate env tbl s0 w veh).sim.requests = w.sim.requests ∧
    (driverUpdate env tbl s0 w veh).sim.stations = w.sim.stations ∧
    (driverUpdate env tbl s0 w veh).sim.bases = w.sim.bases ∧
    (driverUpdate env tbl s0 w veh).sim.vIdx = w.sim.vIdx ∧
    (driverUpdate env tbl s0 w veh).sim.dt = w.sim.dt := by
  have hlook : w.sim.vehicle? veh.id = some veh := lookup_of_mem (key := Vehicle.id) hnd hm
  have hself : ∀ (f : Vehicle → Vehicle), (∀ y, f y = y ∨ True) → True := fun _ _ => trivial
  cases hd : veh.driver with
  | autonomous =>
    have hval : driverUpdate env tbl s0 w veh = w := by unfold driverUpdate; simp [hd]
    have hfl : flipped tbl w.sim.time veh = false := by simp [flipped, hd]
    rw [hval]
    refine ⟨?_, by simp [hfl], rfl, rfl, rfl, rfl, rfl, rfl⟩
    have : ∀ y ∈ w.sim.vehicles, (if y.id == veh.id then upd tbl w.sim.time y else y) = y := by
      intro y hy
      by_cases he : y.id = veh.id
      · have : y = veh := by
          have := lookup_of_mem (key := Vehicle.id) hnd hy
          rw [he] at this
          unfold Sim.vehicle? at hlook
          rw [hlook] at this
          exact (Option.some.inj this).symm
        subst this
        simp [upd_of_not_flipped hfl]
      · simp [he]
    rw [List.map_congr_left this]; simp
  | human a sc home pool =>
    by_cases hw : want tbl w.sim.time a sc = a
    · have hval : driverUpdate env tbl s0 w veh = w := by unfold driverUpdate; simp [hd, hw]
      have hfl : flipped tbl w.sim.time veh = false := by simp [flipped, hd, hw]
      rw [hval]
      refine ⟨?_, by simp [hfl], rfl, rfl, rfl, rfl, rfl, rfl⟩
      have : ∀ y ∈ w.sim.vehicles, (if y.id == veh.id then upd tbl w.sim.time y else y) = y := by
        intro y hy
        by_cases he : y.id = veh.id
        · have : y = veh := by
            have := lookup_of_mem (key := Vehicle.id) hnd hy
            rw [he] at this
            unfold Sim.vehicle? at hlook
            rw [hlook] at this
            exact (Option.some.inj this).symm
          subst this
          simp [upd_of_not_flipped hfl]
        · simp [he]
      rw [List.map_congr_left this]; simp
    · have hfl : flipped tbl w.sim.time veh = true := by simp [flipped, hd, hw]
      have hupd : upd tbl w.sim.time veh = withDriver veh (.human (want tbl w.sim.time a sc) sc home pool) := by
        unfold upd withDriver; rw [hd]; rfl
      have hok : w.sim.modifyVehicle env (withDriver veh (.human (want tbl w.sim.time a sc) sc home pool)) =
          .ok (withVehicles w.sim (replaceById Vehicle.id w.sim.vehicles
                  (withDriver veh (.human (want tbl w.sim.time a sc) sc home pool)))) := by
        unfold Sim.modifyVehicle
        have hid : (withDriver veh (.human (want tbl w.sim.time a sc) sc home pool)).id = veh.id := rfl
        have hpos : (withDriver veh (.human (want tbl w.sim.time a sc) sc home pool)).pos = veh.pos := rfl
        rw [hid, hlook]
        simp only [hpos, hf, Bool.not_true, Bool.false_eq_true, if_false]
        simp [Index.move, withVehicles]
      have hval : driverUpdate env tbl s0 w veh =
          World.mk (withVehicles w.sim (replaceById Vehicle.id w.sim.vehicles
                        (withDriver veh (.human (want tbl w.sim.time a sc) sc home pool))))
            (w.log ++ [.shift veh.id (want tbl w.sim.time a sc)]) := by
        unfold driverUpdate
        simp only [hd, hlook]
        have : (want tbl w.sim.time a sc == a) = false := by simpa using hw
        simp only [this, Bool.false_eq_true, if_false]
        change (match w.sim.modifyVehicle env (withDriver veh (.human (want tbl w.sim.time a sc) sc home pool)) with
          | .ok s' => World.mk s' (w.log ++ [Event.shift veh.id (want tbl w.sim.time a sc)])
          | _ => World.mk s0 (w.log ++ [Event.shift veh.id (want tbl w.sim.time a sc)])) = _
        rw [hok]
      rw [hval]
      refine ⟨?_, by simp [hfl, eventOf, hd], rfl, rfl, rfl, rfl, rfl, rfl⟩
      simp only [withVehicles]
      unfold replaceById
      apply List.map_congr_left
      intro y hy
      have hid : (withDriver veh (.human (want tbl w.sim.time a sc) sc home pool)).id = veh.id := rfl
      rw [hid]
      by_cases he : y.id = veh.id
      · have : y = veh := by
          have := lookup_of_mem (key := Vehicle.id) hnd hy
          rw [he] at this
          unfold Sim.vehicle? at hlook
          rw [hlook] at this
          exact (Option.some.inj this).symm
        subst this
        simp [hupd]
      · simp [he]

theorem driverFold_spec (tbl : List Entry) (s0 : Sim) (vs : List Vehicle) (w : World)
    (hf : ∀ c, env.inFence c = true) (hnd : (w.sim.vehicles.map Vehicle.id).Nodup)
    (hvs : (vs.map Vehicle.id).Nodup) (hm : ∀ v ∈ vs, v ∈ w.sim.vehicles) :
    (vs.foldl (driverUpdate env tbl s0) w).sim.vehicles =
      w.sim.vehicles.map (fun y => if vs.any (fun v => v.id == y.id) then upd tbl w.sim.time y else y) ∧
    (vs.foldl (driverUpdate env tbl s0) w).log =
      w.log ++ (vs.filter (flipped tbl w.sim.time)).map (eventOf tbl w.sim.time) ∧
    (vs.foldl (driverUpdate env tbl s0) w).sim.time = w.sim.time ∧
    (vs.foldl (driverUpdate env tbl s0) w).sim.requests = w.sim.requests ∧
    (vs.foldl (driverUpdate env tbl s0) w).sim.stations = w.sim.stations ∧
    (vs.foldl (driverUpdate env tbl s0) w).sim.bases = w.sim.bases ∧
    (vs.foldl (driverUpdate env tbl s0) w).sim.vIdx = w.sim.vIdx ∧
    (vs.foldl (driverUpdate env tbl s0) w).sim.dt = w.sim.dt := by
  induction vs generalizing w with
  | nil => simp
  | cons v vs ih =>
    simp only [List.foldl_cons]
    obtain ⟨h1, h2, h3, h4, h5, h6, h7, h8⟩ :=
      driverUpdate_spec (env := env) tbl s0 w v hf hnd (hm v List.mem_cons_self)
    have hvs' : v.id ∉ vs.map Vehicle.id ∧ (vs.map Vehicle.id).Nodup := by simpa using hvs
    have hnd' : ((driverUpdate env tbl s0 w v).sim.vehicles.map Vehicle.id).Nodup := by
      rw [h1, List.map_map]
      have : (Vehicle.id ∘ fun y => if y.id == v.id then upd tbl w.sim.time y else y) = Vehicle.id := by
        funext y; simp only [Function.comp]; split <;> rfl
      rw [this]; exact hnd
    have hm' : ∀ v' ∈ vs, v' ∈ (driverUpdate env tbl s0 w v).sim.vehicles := by
      intro v' hv'
      rw [h1]
      refine List.mem_map.mpr ⟨v', hm v' (List.mem_cons_of_mem _ hv'), ?_⟩
      have : v'.id ≠ v.id := fun he => hvs'.1 (he ▸ List.mem_map.mpr ⟨v', hv', rfl⟩)
      simp [this]
    obtain ⟨g1, g2, g3, g4, g5, g6, g7, g8⟩ := ih (driverUpdate env tbl s0 w v) hnd' hvs'.2 hm'
    refine ⟨?_, ?_, g3.trans h3, g4.trans h4, g5.trans h5, g6.trans h6, g7.trans h7, g8.trans h8⟩
    · rw [g1, h1, h3, List.map_map]
      apply List.map_congr_left
      intro y _
      simp only [Function.comp]
      by_cases he : y.id = v.id
      · have hno : vs.any (fun v' => v'.id == y.id) = false := by
          rw [List.any_eq_false]
          intro v' hv'
          simp only [beq_iff_eq]
          intro h'
          exact hvs'.1 (List.mem_map.mpr ⟨v', hv', by rw [h', he]⟩)
        have hno' : vs.any (fun v' => v'.id == (upd tbl w.sim.time y).id) = false := by
          rw [upd_id]; exact hno
        simp [he, hno']
      · have : (y.id == v.id) = false := by simpa using he
        have hv : (v.id == y.id) = false := by simpa using Ne.symm he
        simp [this, hv]
    · rw [g2, h2, h3, List.filter_cons]
      split <;> simp

/-- **the driver phase**: every human driver whose schedule exists ends up available exactly when
    the clock's time of day lies inside the shift; one event is filed for exactly the vehicles
    whose availability flipped (carrying the new availability), in vehicle-id order; nothing else
    in the state changes -/
theorem driver_phase (tbl : List Entry) (w : World) (hf : ∀ c, env.inFence c = true) (hwf : w.sim.WF) :
    (driverUpdates env tbl w).sim.vehicles = w.sim.vehicles.map (upd tbl w.sim.time) ∧
    (driverUpdates env tbl w).log = w.log ++
      ((sortBy (fun (a b : Vehicle) => decide (a.id ≤ b.id)) w.sim.vehicles).filter (flipped tbl w.sim.time)).map
        (eventOf tbl w.sim.time) ∧
    (driverUpdates env tbl w).sim.time = w.sim.time ∧ (driverUpdates env tbl w).sim.requests = w.sim.requests ∧
    (driverUpdates env tbl w).sim.stations = w.sim.stations ∧ (driverUpdates env tbl w).sim.bases = w.sim.bases ∧
    (driverUpdates env tbl w).sim.vIdx = w.sim.vIdx := by
  unfold driverUpdates
  have hperm := sortBy_perm (fun (a b : Vehicle) => decide (a.id ≤ b.id)) w.sim.vehicles
  obtain ⟨h1, h2, h3, h4, h5, h6, h7, _⟩ := driverFold_spec (env := env) tbl w.sim _ w hf hwf.veh
    ((hperm.map Vehicle.id).nodup_iff.mpr hwf.veh) (fun v hv => hperm.mem_iff.mp hv)
  refine ⟨?_, h2, h3, h4, h5, h6, h7⟩
  rw [h1]
  apply List.map_congr_left
  intro y hy
  have : (sortBy (fun (a b : Vehicle) => decide (a.id ≤ b.id)) w.sim.vehicles).any (fun v => v.id == y.id) = true := by
    rw [List.any_eq_true]
    exact ⟨y, hperm.mem_iff.mpr hy, by simp⟩
  simp [this]

/-- **available exactly when inside the shift** (start inclusive, end exclusive, wrap-around) -/
theorem available_iff_on_shift (tbl : List Entry) (w : World) (hf : ∀ c, env.inFence c = true) (hwf : w.sim.WF)
    (veh : Vehicle) (hv : veh ∈ (driverUpdates env tbl w).sim.vehicles) (a : Bool) (s : Nat) (h : BaseId) (p : Bool)
    (hd : veh.driver = .human a s h p) (e : Entry) (he : find tbl s = some e) :
    a = inRange e.start e.stop (tod w.sim.time) := by
  rw [(driver_phase (env := env) tbl w hf hwf).1] at hv
  obtain ⟨v0, _, rfl⟩ := List.mem_map.mp hv
  unfold upd at hd
  simp only at hd
  cases hd0 : v0.driver with
  | autonomous => rw [hd0] at hd; simp [expectedDriver] at hd
  | human a0 s0 h0 p0 =>
    rw [hd0] at hd
    simp only [expectedDriver, Driver.human.injEq] at hd
    obtain ⟨ha, hs, _, _⟩ := hd
    subst hs
    rw [← ha]
    simp [want, scheduled, he]

/-- **an event exactly when availability flips**, carrying the new availability -/
theorem event_iff_flip (tbl : List Entry) (w : World)
    (v : VehicleId) (b : Bool) :
    Event.shift v b ∈ ((sortBy (fun (a b : Vehicle) => decide (a.id ≤ b.id)) w.sim.vehicles).filter
        (flipped tbl w.sim.time)).map (eventOf tbl w.sim.time) ↔
      ∃ veh ∈ w.sim.vehicles, veh.id = v ∧ ∃ a s h p, veh.driver = .human a s h p ∧ a ≠ b ∧ want tbl w.sim.time a s = b := by
  have hperm := sortBy_perm (fun (a b : Vehicle) => decide (a.id ≤ b.id)) w.sim.vehicles
  constructor
  · intro hm
    obtain ⟨veh, hveh, hev⟩ := List.mem_map.mp hm
    obtain ⟨hin, hfl⟩ := List.mem_filter.mp hveh
    refine ⟨veh, hperm.mem_iff.mp hin, ?_⟩
    cases hd : veh.driver with
    | autonomous => simp [flipped, hd] at hfl
    | human a s h p =>
      simp only [eventOf, hd, Event.shift.injEq] at hev
      simp only [flipped, hd, bne_iff_ne, ne_eq] at hfl
      refine ⟨hev.1, a, s, h, p, rfl, ?_, hev.2⟩
      rw [← hev.2]; exact fun h' => hfl h'.symm
  · rintro ⟨veh, hin, hid, a, s, h, p, hd, hne, hw⟩
    refine List.mem_map.mpr ⟨veh, List.mem_filter.mpr ⟨hperm.mem_iff.mpr hin, ?_⟩, ?_⟩
    · simp only [flipped, hd, bne_iff_ne, ne_eq]; rw [hw]; exact fun h' => hne h'.symm
    · simp only [eventOf, hd, hid, hw]

/-- at most one event per vehicle and phase -/
theorem one_event_per_vehicle (tbl : List Entry) (w : World) (hwf : w.sim.WF) :
    ((((sortBy (fun (a b : Vehicle) => decide (a.id ≤ b.id)) w.sim.vehicles).filter (flipped tbl w.sim.time)).map
      Vehicle.id)).Nodup := by
  have hperm := sortBy_perm (fun (a b : Vehicle) => decide (a.id ≤ b.id)) w.sim.vehicles
  exact List.Nodup.sublist (List.Sublist.map _ List.filter_sublist) ((hperm.map Vehicle.id).nodup_iff.mpr hwf.veh)

/-! ### nothing else touches a driver state -/

/-- every instruction phase and every vehicle-update phase leaves every driver state as it is
    (`SameBut.driver` through all `enter`/`update` functions), so the availability fixed at the
    start of a step is the availability for the whole step -/
theorem driver_untouched (env : Env) (d : VehicleId → Option Driver) :
    RunInv env (fun s => s.vehicles.all (fun veh => decide (d veh.id = none ∨ d veh.id = some veh.driver)) = true) :=
  vehPred_runInv (P := fun _ veh => decide (d veh.id = none ∨ d veh.id = some veh.driver))
    { mono := fun _ _ h => h
      enter := by
        intro v s s1 s2 old veh' next _ _ _ _ hP _ hsb _ _
        simp only [decide_eq_true_eq] at hP ⊢
        rw [hsb.id, hsb.driver]; exact hP
      upd := by
        intro v s s2 old new _ _ _ hsb _ hP
        simp only [decide_eq_true_eq] at hP ⊢
        rw [hsb.id, hsb.driver]; exact hP
      applied := fun _ _ _ => rfl
      tick := fun _ _ => rfl
      arrival := fun _ _ _ _ _ h => h }

/-! ### not vacuous -/

/-- 22:00-06:00 shift: on at 22:00:00 and 05:59:59, off at 06:00:00 and 21:59:59, also on day 3 -/
example : inRange 79200 21600 (tod 79200) = true ∧ inRange 79200 21600 (tod 21599) = true ∧
    inRange 79200 21600 (tod 21600) = false ∧ inRange 79200 21600 (tod 79199) = false ∧
    inRange 79200 21600 (tod (2 * 86400 + 3)) = true := by decide

end C20
end Hive
