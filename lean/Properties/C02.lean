import Hive
