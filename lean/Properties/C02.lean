/-
  Property C02 — charger, queue and parking-stall counts match the vehicles using them.

  `inv02` (Hive/Inv.lean) is the executable predicate the driver evaluates on implementation
  states: for every station and installed plug type `avail + #charging = total` (so
  `0 ≤ avail ≤ total`) and `enq = #queueing`, where "charging" counts vehicles in
  `ChargingStation` there and vehicles in `ChargingBase` at a base attached to that station;
  for every base `avail + #(ReserveBase ∪ ChargingBase) = total`.

  Theorems: the invariant is preserved by every phase of a step, for every environment
  (any physics, router, cell hierarchy), every instruction list with at most one instruction per
  vehicle (what the step pipeline hands to `apply_instructions`, see C09), accepted or rejected,
  and therefore holds in every reachable state.
-/
import Proofs.C02
import Proofs.Layout
import Proofs.Run

namespace Hive
namespace C02

/-- the invariant is an invariant of runs, for every environment -/
theorem runInv (env : Env) : RunInv env (fun s => inv02 s = true) where
  applied s a h := by
    rw [inv02_iff] at h ⊢
    exact Inv02On_congr rfl rfl h
  transition hwf hi hveh _ h := by
    rw [inv02_iff] at hi ⊢
    exact transition_inv02 hwf hi hveh h
  update hwf hi hveh h := by
    rw [inv02_iff] at hi ⊢
    exact (defaultUpdate_inv02 hwf hi hveh h).1
  tick s h := by
    rw [inv02_iff] at h ⊢
    exact Inv02On_congr rfl rfl h
  arrival _ hi hf _ _ h := by
    rw [inv02_iff] at hi ⊢
    rw [addRequest_fresh hf h]
    exact Inv02On_congr rfl rfl hi
  cancel _ hi h := by
    rw [inv02_iff] at hi ⊢
    obtain ⟨_, _, hs, hb, hv, _, _⟩ := Sim.removeRequest_fields h
    rw [hv]
    exact Inv02On_congr hs hb hi

/-- `apply_instructions`: any instructions (one per vehicle), accepted or rejected -/
theorem instructions (env : Env) {w : World} {is : List Instr}
    (hn : (is.map Instr.vehicle).Nodup) (hwf : w.sim.WF) (h : inv02 w.sim = true) :
    inv02 (applyInstructions env w is).sim = true :=
  (applyInstructions_inv (runInv env).toStepInv hn hwf h).1

/-- `perform_vehicle_state_updates`: arrivals at full stations, vehicles running out of energy,
    default transitions, charging, queueing — for any oracle answers -/
theorem updates (env : Env) {w : World} (hwf : w.sim.WF) (h : inv02 w.sim = true) :
    inv02 (vehicleUpdates env w).sim = true :=
  (vehicleUpdates_inv (runInv env).toStepInv hwf h).1

/-- **C02**: the counts match in every state reachable from a well-formed initial state in which
    they match, by any history of instruction phases, update phases, ticks, request arrivals and
    cancellations -/
theorem reachable (env : Env) {s0 s : Sim} (hwf : s0.WF) (h0 : inv02 s0 = true)
    (h : Reachable env s0 s) : inv02 s = true :=
  reachable_inv (runInv env) hwf h0 h

/-- a freshly loaded simulation satisfies the invariant: every vehicle idle, every counter full -/
theorem initial {s : Sim} (hv : ∀ v ∈ s.vehicles, v.act.free = true)
    (hs : ∀ st ∈ s.stations, ∀ cs ∈ st.plugs, cs.avail = cs.total ∧ cs.enq = 0)
    (hb : ∀ b ∈ s.bases, b.avail = b.total) : inv02 s = true := by
  rw [inv02_iff]
  have hz : ∀ p : Vehicle → Bool, (∀ v ∈ s.vehicles, v.act.free = true → p v = false) → s.vehicles.countP p = 0 := by
    intro p hp
    rw [List.countP_eq_zero]
    intro v hv'
    simp [hp v hv' (hv v hv')]
  refine ⟨?_, ?_⟩
  · intro st hst cs hcs
    have h1 : s.vehicles.countP (holdsPlug s st.id cs.id) = 0 := hz _ (by
      intro v _ hf; cases h : v.act <;> simp_all [holdsPlug, Act.free])
    have h2 : s.vehicles.countP (queuesFor st.id cs.id) = 0 := hz _ (by
      intro v _ hf; cases h : v.act <;> simp_all [queuesFor, Act.free])
    rw [h1, h2]
    exact ⟨by simp [(hs st hst cs hcs).1], (hs st hst cs hcs).2⟩
  · intro b hb'
    have h3 : s.vehicles.countP (holdsStall b.id) = 0 := hz _ (by
      intro v _ hf; cases h : v.act <;> simp_all [holdsStall, Act.free])
    rw [h3]
    simp [hb b hb']

/-- **the initial layout**: stations loaded from any stations file (stations on several rows, a
    plug type listed more than once, zero counts - `Layout.loadStations` is the fold of
    `Station.from_row` / `append_chargers` / `ChargerState.add_chargers`), bases built by
    `Base.from_row`, vehicles idle: the counters match (memberships assigned from the fleets file
    afterwards do not touch them) -/
theorem loaded_layout (cat : Layout.Catalogue) (rows : List Layout.StationRow) {loaded : List Station}
    (hl : Layout.loadStations cat rows [] = some loaded) {s : Sim}
    (hs : ∀ st ∈ s.stations, ∃ st0 ∈ loaded, st.plugs = st0.plugs)
    (hb : ∀ b ∈ s.bases, ∃ r : Layout.BaseRow, b.total = (Layout.baseOf r).total ∧ b.avail = (Layout.baseOf r).avail)
    (hv : ∀ v ∈ s.vehicles, v.act.free = true) : inv02 s = true := by
  apply initial hv
  · intro st hst cs hcs
    obtain ⟨st0, h0, hp⟩ := hs st hst
    exact Layout.loadStations_full rows (by intro x hx; cases hx) hl st0 h0 cs (hp ▸ hcs)
  · intro b hb'
    obtain ⟨r, h1, h2⟩ := hb b hb'
    rw [h1, h2]; rfl

/-- **installed = listed**: the loaded stations have, of every plug type, exactly the sum of the
    counts of the rows of the stations file that name that station and type -/
theorem loaded_installed (cat : Layout.Catalogue) (rows : List Layout.StationRow) {loaded : List Station}
    (hl : Layout.loadStations cat rows [] = some loaded) (sid : StationId) (c : ChargerId) :
    Layout.plugTotal loaded sid c = Layout.installed rows sid c := by
  have := Layout.loadStations_installed rows hl sid c
  simpa [Layout.plugTotal, lookup] using this

/-- not vacuous: one station on three rows, one plug type listed twice -/
example : (Layout.loadStations (fun _ => some (true, 50))
    [⟨0, ⟨0, 0⟩, 1, 2, true⟩, ⟨0, ⟨0, 0⟩, 2, 1, false⟩, ⟨0, ⟨0, 0⟩, 1, 3, false⟩] []).map
      (fun l => l.map fun st => st.plugs.map fun cs => (cs.id, cs.total, cs.avail, cs.enq))
    = some [[(1, 5, 5, 0), (2, 1, 1, 0)]] := by decide

/-! ### non-vacuity: a concrete state with contention satisfies the hypotheses -/

private def p0 : Pos := ⟨0, 0⟩
private def plug (avail enq : Nat) : ChargerState := ⟨0, true, 50, 2, avail, 0, enq⟩
private def veh (i : Nat) (a : Act) : Vehicle := ⟨i, p0, [], 0, ⟨1, 0, 0⟩, a, .autonomous, 0, 0⟩
/-- two plugs: one taken by a vehicle at the station, one through the base; one vehicle queues;
    the base has two stalls, one parked vehicle and one charging vehicle -/
private def ex : Sim :=
  { time := 0, dt := 60,
    vehicles := [veh 0 (.chargingStation 0 0), veh 1 (.chargingBase 0 0), veh 2 (.chargeQueueing 0 0 0),
                 veh 3 (.reserveBase 0), veh 4 (.idle 0)],
    stations := [⟨0, p0, [], [plug 0 1], [], 0, 0, 0⟩],
    bases := [⟨0, p0, [], 2, 0, some 0⟩],
    requests := [], applied := [], vIdx := ⟨[], []⟩, rIdx := ⟨[], []⟩, sIdx := ⟨[], []⟩, bIdx := ⟨[], []⟩ }

example : inv02 ex = true := by decide
example : ex.WF := ⟨by decide, by decide, by decide, by decide, by intro st hst; simp [ex] at hst; subst hst; decide⟩

end C02
end Hive
