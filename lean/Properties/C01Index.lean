/-
  C01 — the location indexes up to the order of their cells and of the ids inside a cell.

  `immutables.Map[GeoId, FrozenSet[Id]]`: both the map and the sets iterate in hash order. In the
  model an index dictionary is a list of (cell, id list); `SameSets a b` says that two dictionaries
  register the same ids under the same cells, `IdxEqv` the same for the pair (exact cells, search
  cells). `add_to_collection_dict`, `remove_from_collection_dict` (incl. its `KeyError`) and the
  three index operations of `simulation_state_ops` (`Index.add`, `Index.remove`, `Index.move`) have
  the same outcome kind on related indexes and lead to related indexes.
-/
import Proofs.Index
import Hive.Lookup

namespace Hive
namespace C01

/-- two index dictionaries that register the same ids under the same cells - whatever the order
    of the cells in the map and of the ids inside a cell's `frozenset` -/
def SameSets (a b : CollDict) : Prop :=
  ∀ c, a.has c = b.has c ∧ ∀ i, (a.get c).contains i = (b.get c).contains i

theorem SameSets.refl (a : CollDict) : SameSets a a := fun _ => ⟨rfl, fun _ => rfl⟩

/-- results of the same kind, successful ones related -/
def OptRel {α β : Type} (R : α → β → Prop) : Option α → Option β → Prop
  | some a, some b => R a b
  | none, none => True
  | _, _ => False

theorem OptRel.bind {α α' β β' : Type} {R : α → α' → Prop} {Q : β → β' → Prop}
    {x : Option α} {y : Option α'} {f : α → Option β} {g : α' → Option β'} (hxy : OptRel R x y)
    (h : ∀ a b, R a b → OptRel Q (f a) (g b)) : OptRel Q (x.bind f) (y.bind g) := by
  cases x <;> cases y <;> first | exact hxy.elim | trivial | skip
  exact h _ _ hxy

namespace CollDictC
open CollDict

theorem has_set (xs : CollDict) (c c' : Cell) (ids : List Nat) :
    has (set xs c ids) c' = (has xs c' || c' == c) := by
  rw [Bool.eq_iff_iff]
  cases hh : has xs c
  · rw [has_iff_mem_cells, cells_set, hh]
    simp only [Bool.false_eq_true, if_false, List.mem_append, List.mem_singleton, Bool.or_eq_true, beq_iff_eq,
      has_iff_mem_cells]
  · rw [has_iff_mem_cells, cells_set, hh]
    simp only [if_true, Bool.or_eq_true, beq_iff_eq, has_iff_mem_cells]
    constructor
    · exact Or.inl
    · rintro (h | h)
      · exact h
      · subst h; exact has_iff_mem_cells.mp hh

theorem has_filter (xs : CollDict) (c c' : Cell) :
    has (xs.filter (fun p => p.1 != c)) c' = (has xs c' && c' != c) := by
  rw [Bool.eq_iff_iff]
  simp only [Bool.and_eq_true, bne_iff_ne, ne_eq, has_iff_mem_cells, List.mem_map, List.mem_filter]
  constructor
  · rintro ⟨p, ⟨hp, hne⟩, rfl⟩
    exact ⟨⟨p, hp, rfl⟩, hne⟩
  · rintro ⟨⟨p, hp, rfl⟩, hne⟩
    exact ⟨p, ⟨hp, hne⟩, rfl⟩

/-- `set` of membership-equal id lists keeps `SameSets` -/
theorem set_sameSets {a b : CollDict} (h : SameSets a b) (c : Cell) {ids ids' : List Nat}
    (hids : ∀ i, ids.contains i = ids'.contains i) : SameSets (set a c ids) (set b c ids') := by
  intro c'
  refine ⟨by rw [has_set, has_set, (h c').1], fun i => ?_⟩
  by_cases hc : c' = c
  · subst hc; rw [get_set_self, get_set_self]; exact hids i
  · rw [get_set_ne _ _ hc, get_set_ne _ _ hc]; exact (h c').2 i

theorem filter_sameSets {a b : CollDict} (h : SameSets a b) (c : Cell) :
    SameSets (a.filter (fun p => p.1 != c)) (b.filter (fun p => p.1 != c)) := by
  intro c'
  refine ⟨by rw [has_filter, has_filter, (h c').1], fun i => ?_⟩
  by_cases hc : c' = c
  · subst hc; rw [get_filter_self, get_filter_self]
  · rw [get_filter_ne _ hc, get_filter_ne _ hc]; exact (h c').2 i

theorem contains_eq_of {l l' : List Nat} (h : ∀ i, l.contains i = l'.contains i) : l.isEmpty = l'.isEmpty := by
  cases l with
  | nil =>
    cases l' with
    | nil => rfl
    | cons y ys => have := h y; simp at this
  | cons x xs =>
    cases l' with
    | nil => have := h x; simp at this
    | cons y ys => rfl

/-- `add_to_collection_dict` -/
theorem add_sameSets {a b : CollDict} (h : SameSets a b) (c : Cell) (i : Nat) :
    SameSets (add a c i) (add b c i) := by
  unfold add
  apply set_sameSets h
  intro j
  have hc := (h c).2
  have hi := hc i
  cases h1 : (a.get c).contains i <;> cases h2 : (b.get c).contains i <;> rw [h1, h2] at hi <;>
    first | cases hi | skip
  · simp only [Bool.false_eq_true, if_false, List.contains_append, hc j]
  · simp only [if_true, hc j]

/-- `remove_from_collection_dict` (`none`: the Python raises `KeyError`) -/
theorem remove_sameSets {a b : CollDict} (h : SameSets a b) (c : Cell) (i : Nat) :
    OptRel SameSets (remove a c i) (remove b c i) := by
  unfold remove
  have hf : ∀ j, ((a.get c).filter (· != i)).contains j = ((b.get c).filter (· != i)).contains j := by
    intro j
    have := (h c).2 j
    rw [Bool.eq_iff_iff] at this ⊢
    simp only [List.contains_iff_mem, List.mem_filter] at this ⊢
    rw [this]
  simp only
  rw [contains_eq_of hf]
  split
  · unfold delete
    rw [(h c).1]
    split
    · exact filter_sameSets h c
    · trivial
  · exact set_sameSets h c hf

end CollDictC


/-- two location indexes (exact cells and search cells) with the same registrations -/
def IdxEqv (a b : Index) : Prop := SameSets a.loc b.loc ∧ SameSets a.search b.search

theorem IdxEqv.refl (a : Index) : IdxEqv a a := ⟨.refl _, .refl _⟩

theorem IdxEqv.of_eq {a b : Index} (h : a = b) : IdxEqv a b := h ▸ .refl a

theorem index_add_eqv (parent : Cell → Cell) {a b : Index} (h : IdxEqv a b) (cell : Cell) (i : Nat) :
    IdxEqv (Index.add parent a cell i) (Index.add parent b cell i) :=
  ⟨CollDictC.add_sameSets h.1 cell i, CollDictC.add_sameSets h.2 (parent cell) i⟩

theorem index_remove_eqv (parent : Cell → Cell) {a b : Index} (h : IdxEqv a b) (cell : Cell) (i : Nat) :
    OptRel IdxEqv (Index.remove parent a cell i) (Index.remove parent b cell i) := by
  unfold Index.remove
  have h1 := CollDictC.remove_sameSets h.1 cell i
  have h2 := CollDictC.remove_sameSets h.2 (parent cell) i
  cases hx : CollDict.remove a.loc cell i <;> cases hy : CollDict.remove b.loc cell i <;>
    rw [hx, hy] at h1 <;> first | exact h1.elim | trivial | skip
  cases hx2 : CollDict.remove a.search (parent cell) i <;> cases hy2 : CollDict.remove b.search (parent cell) i <;>
    rw [hx2, hy2] at h2 <;> first | exact h2.elim | trivial | exact ⟨h1, h2⟩

theorem index_move_eqv (parent : Cell → Cell) {a b : Index} (h : IdxEqv a b) (old new : Cell) (i : Nat) :
    OptRel IdxEqv (Index.move parent a old new i) (Index.move parent b old new i) := by
  unfold Index.move
  split
  · exact h
  · have h1 := CollDictC.remove_sameSets h.1 old i
    cases hx : CollDict.remove a.loc old i <;> cases hy : CollDict.remove b.loc old i <;>
      rw [hx, hy] at h1 <;> first | exact h1.elim | trivial | skip
    next la lb =>
    simp only [Option.bind_eq_bind, Option.bind_some, Option.pure_def]
    split
    · exact ⟨CollDictC.add_sameSets h1 new i, h.2⟩
    · have h2 := CollDictC.remove_sameSets h.2 (parent old) i
      cases hx2 : CollDict.remove a.search (parent old) i <;> cases hy2 : CollDict.remove b.search (parent old) i <;>
        rw [hx2, hy2] at h2 <;> first | exact h2.elim | trivial | skip
      exact ⟨CollDictC.add_sameSets h1 new i, CollDictC.add_sameSets h2 (parent new) i⟩

end C01
end Hive
