/-
  C12 — The trip dispatcher returns a valid minimum-cost matching.

  "Each time the built-in trip dispatcher runs, within each fleet it pairs distinct eligible
   vehicles (driver on shift, vehicle in a dispatchable activity, enough remaining range, member
   of the fleet) with distinct waiting requests that have no vehicle assigned yet. The number of
   pairs equals the smaller of the two counts, and no other pairing of that size has a lower total
   grid distance between vehicles and request origins."

  The assignment itself is computed by `scipy.optimize.linear_sum_assignment` (compiled code
  outside the repository). It is not modelled: every answer of the implementation is accepted by
  `Hive.Dispatch.checkFleet` only together with a dual certificate, and `checkFleet_sound` below
  proves - for every state, fleet, configuration, range oracle and cost table - that an accepted
  answer is exactly what the statement demands. The eligibility filters are modelled
  (`eligible`, `waiting`) and compared with the implementation's on every run.
-/
import Hive.Dispatch
import Proofs.Assign
import Proofs.SimOps

namespace Hive
namespace C12
open Dispatch Assign

/-- the statement for one fleet: distinct eligible vehicles, distinct waiting requests, as many
    pairs as the smaller side has members -/
structure ValidPairing (V R : List Nat) (m : List (Nat × Nat)) : Prop where
  vNodup : (m.map (·.1)).Nodup
  vSub : ∀ v ∈ m.map (·.1), v ∈ V
  rNodup : (m.map (·.2)).Nodup
  rSub : ∀ r ∈ m.map (·.2), r ∈ R
  size : m.length = min V.length R.length

theorem completeOk_iff {rows cols : List Nat} {m : List (Nat × Nat)} :
    completeOk rows cols m = true ↔ Complete rows cols m := by
  unfold completeOk
  simp only [Bool.and_eq_true, List.isPerm_iff, decide_eq_true_eq, List.all_eq_true, List.contains_iff_mem]
  constructor
  · rintro ⟨⟨h1, h2⟩, h3⟩; exact ⟨h1, h2, h3⟩
  · rintro ⟨h1, h2, h3⟩; exact ⟨⟨h1, h2⟩, h3⟩

theorem certOk_iff {rows cols : List Nat} {c : Nat → Nat → Int} {u v : Nat → Int} {m : List (Nat × Nat)} :
    certOk rows cols c u v m = true → Cert rows cols c u v m := by
  unfold certOk
  simp only [Bool.and_eq_true, List.all_eq_true, decide_eq_true_eq, Bool.or_eq_true, List.contains_iff_mem]
  rintro ⟨⟨⟨h1, h2⟩, h3⟩, h4⟩
  refine ⟨h1, h2, h3, ?_⟩
  intro j hj hnot
  rcases h4 j hj with h | h
  · exact absurd h hnot
  · exact h

/-- a complete matching of the smaller side is a valid pairing … -/
theorem valid_of_complete {rows cols : List Nat} (hr : rows.Nodup) (hle : rows.length ≤ cols.length)
    {m : List (Nat × Nat)} (h : Complete rows cols m) : ValidPairing rows cols m := by
  refine ⟨h.rows.nodup_iff.mpr hr, fun v hv => h.rows.mem_iff.mp hv, h.colsNodup, h.colsSub, ?_⟩
  have : m.length = rows.length := by
    have := h.rows.length_eq
    simpa using this
  rw [this]; omega

/-- … and every valid pairing is a complete matching of the smaller side -/
theorem complete_of_valid {rows cols : List Nat} (hr : rows.Nodup) (hle : rows.length ≤ cols.length)
    {m : List (Nat × Nat)} (h : ValidPairing rows cols m) : Complete rows cols m := by
  refine ⟨?_, h.rNodup, h.rSub⟩
  have hsub : (m.map (·.1)).Subperm rows := List.subperm_of_subset h.vNodup h.vSub
  apply hsub.perm_of_length_le
  have : (m.map (·.1)).length = min rows.length cols.length := by simpa using h.size
  rw [this]; omega

theorem cost_swap (c : Nat → Nat → Int) (m : List (Nat × Nat)) :
    cost (fun r v => c v r) (swap m) = cost c m := by
  unfold cost swap
  simp [List.map_map, Function.comp_def]

theorem valid_swap {V R : List Nat} {m : List (Nat × Nat)} (h : ValidPairing V R m) : ValidPairing R V (swap m) := by
  have h1 : (swap m).map (·.1) = m.map (·.2) := by simp [swap, List.map_map, Function.comp_def]
  have h2 : (swap m).map (·.2) = m.map (·.1) := by simp [swap, List.map_map, Function.comp_def]
  refine ⟨by rw [h1]; exact h.rNodup, by rw [h1]; exact h.rSub, by rw [h2]; exact h.vNodup, by rw [h2]; exact h.vSub, ?_⟩
  simp only [swap, List.length_map]
  rw [h.size]; omega

theorem swap_swap (m : List (Nat × Nat)) : swap (swap m) = m := by
  simp [swap, List.map_map, Function.comp_def]

/-- ids of distinct entities stay distinct under the filters -/
theorem vehiclesOf_nodup (cfg : DCfg) (range : VehicleId → Option Rat) (usedV : List VehicleId)
    (fleet : Option FleetId) {s : Sim} (hwf : s.WF) : (vehiclesOf cfg range usedV fleet s).Nodup :=
  List.Nodup.sublist (List.Sublist.map _ List.filter_sublist) hwf.veh

theorem requestsOf_nodup (usedR : List RequestId) (fleet : Option FleetId) {s : Sim} (hwf : s.WF) :
    (requestsOf usedR fleet s).Nodup :=
  List.Nodup.sublist (List.Sublist.map _ List.filter_sublist) hwf.req

/-- **an accepted answer is a valid pairing of maximal size and minimal total cost** -/
theorem checkFleet_sound (cfg : DCfg) (range : VehicleId → Option Rat) (c : VehicleId → RequestId → Int)
    (s : Sim) (hwf : s.WF) (usedV : List VehicleId) (usedR : List RequestId) (a : Answer)
    (h : checkFleet cfg range c s usedV usedR a = true) :
    ValidPairing (vehiclesOf cfg range usedV a.fleet s) (requestsOf usedR a.fleet s) a.pairs ∧
    ∀ m', ValidPairing (vehiclesOf cfg range usedV a.fleet s) (requestsOf usedR a.fleet s) m' →
      cost c a.pairs ≤ cost c m' := by
  have hV := vehiclesOf_nodup cfg range usedV a.fleet hwf
  have hR := requestsOf_nodup usedR a.fleet hwf
  unfold checkFleet at h
  simp only at h
  split at h
  · next hle =>
    simp only [Bool.and_eq_true] at h
    have hcomp := completeOk_iff.mp h.1
    have hcert := certOk_iff h.2
    refine ⟨valid_of_complete hV hle hcomp, ?_⟩
    intro m' hm'
    exact cert_optimal hR hcomp hcert (complete_of_valid hV hle hm')
  · next hnle =>
    have hle : (requestsOf usedR a.fleet s).length ≤ (vehiclesOf cfg range usedV a.fleet s).length := by omega
    simp only [Bool.and_eq_true] at h
    have hcomp := completeOk_iff.mp h.1
    have hcert := certOk_iff h.2
    constructor
    · have := valid_swap (valid_of_complete hR hle hcomp)
      rwa [swap_swap] at this
    · intro m' hm'
      have := cert_optimal hV hcomp hcert (complete_of_valid hR hle (valid_swap hm'))
      rwa [cost_swap, cost_swap] at this

/-- what "eligible" means: every paired vehicle is in a dispatchable activity, was not paired for
    an earlier fleet, its driver is on shift, it is open to the fleet (member, or without any
    membership: known finding F6), and its remaining range exceeds the matching threshold -/
theorem paired_vehicle_eligible (cfg : DCfg) (range : VehicleId → Option Rat) (usedV : List VehicleId)
    (fleet : Option FleetId) (s : Sim) (v : VehicleId) (hv : v ∈ vehiclesOf cfg range usedV fleet s) :
    ∃ veh ∈ s.vehicles, veh.id = v ∧ cfg.validKinds.contains (kindLower veh.act) = true ∧ v ∉ usedV ∧
      veh.driver.available = true ∧ (∀ f, fleet = some f → veh.members = [] ∨ f ∈ veh.members) ∧
      ∃ r, range v = some r ∧ cfg.matchRange < r := by
  unfold vehiclesOf at hv
  obtain ⟨veh, hveh, rfl⟩ := List.mem_map.mp hv
  obtain ⟨hm, he⟩ := List.mem_filter.mp hveh
  unfold eligible at he
  simp only [Bool.and_eq_true] at he
  obtain ⟨⟨⟨⟨h1, h0⟩, h2⟩, h3⟩, h4⟩ := he
  refine ⟨veh, hm, rfl, h1, by simpa using h0, h2, ?_, ?_⟩
  · intro f hf
    subst hf
    simpa [List.isEmpty_iff] using h3
  · cases hr : range veh.id with
    | none => rw [hr] at h4; cases h4
    | some r =>
      rw [hr] at h4
      simp only [Bool.and_eq_true, decide_eq_true_eq] at h4
      exact ⟨r, rfl, h4.2⟩

/-- **the dispatcher never assigns a request to a driver who is off shift** (third clause of C20) -/
theorem dispatch_available (cfg : DCfg) (range : VehicleId → Option Rat) (c : VehicleId → RequestId → Int)
    (s : Sim) (hwf : s.WF) (usedV : List VehicleId) (usedR : List RequestId) (a : Answer)
    (h : checkFleet cfg range c s usedV usedR a = true) :
    ∀ p ∈ a.pairs, ∃ veh ∈ s.vehicles, veh.id = p.1 ∧ veh.driver.available = true := by
  intro p hp
  have hv := (checkFleet_sound cfg range c s hwf usedV usedR a h).1.vSub p.1 (List.mem_map.mpr ⟨p, hp, rfl⟩)
  obtain ⟨veh, hm, hid, _, _, hav, _⟩ := paired_vehicle_eligible cfg range usedV a.fleet s p.1 hv
  exact ⟨veh, hm, hid, hav⟩

/-- every paired request is waiting: no vehicle has been assigned to it - neither in the state nor
    by an earlier fleet of this run - and it is open to the fleet -/
theorem paired_request_waiting (usedR : List RequestId) (fleet : Option FleetId) (s : Sim) (r : RequestId)
    (hr : r ∈ requestsOf usedR fleet s) :
    ∃ req ∈ s.requests, req.id = r ∧ req.dispVeh = none ∧ r ∉ usedR ∧
      (∀ f, fleet = some f → req.members = [] ∨ f ∈ req.members) := by
  unfold requestsOf at hr
  obtain ⟨req, hreq, rfl⟩ := List.mem_map.mp hr
  obtain ⟨hm, hw⟩ := List.mem_filter.mp hreq
  unfold waiting at hw
  simp only [Bool.and_eq_true, Option.isNone_iff_eq_none] at hw
  refine ⟨req, hm, rfl, hw.1.1, by simpa using hw.1.2, ?_⟩
  intro f hf
  subst hf
  have := hw.2
  simp only [Bool.or_eq_true, List.isEmpty_iff, List.contains_iff_mem] at this
  exact this

/-- all pairs of a run, fleet after fleet -/
def allPairs (as : List Answer) : List (VehicleId × RequestId) := as.flatMap (·.pairs)

/-- **in one run of the dispatcher no vehicle and no request is paired twice** (across fleets as
    well), and nothing already taken before the run is paired -/
theorem run_distinct (cfg : DCfg) (range : VehicleId → Option Rat) (c : VehicleId → RequestId → Int)
    (s : Sim) (hwf : s.WF) (as : List Answer) :
    ∀ (usedV : List VehicleId) (usedR : List RequestId), checkRun cfg range c s usedV usedR as = true →
      ((allPairs as).map (·.1)).Nodup ∧ ((allPairs as).map (·.2)).Nodup ∧
      (∀ v ∈ (allPairs as).map (·.1), v ∉ usedV) ∧ (∀ r ∈ (allPairs as).map (·.2), r ∉ usedR) := by
  induction as with
  | nil => intro _ _ _; simp [allPairs]
  | cons a more ih =>
    intro usedV usedR h
    simp only [checkRun, Bool.and_eq_true] at h
    obtain ⟨hval, _⟩ := checkFleet_sound cfg range c s hwf usedV usedR a h.1
    obtain ⟨i1, i2, i3, i4⟩ := ih _ _ h.2
    have hv0 : ∀ v ∈ a.pairs.map (·.1), v ∉ usedV := by
      intro v hv
      obtain ⟨_, _, _, _, hnot, _⟩ := paired_vehicle_eligible cfg range usedV a.fleet s v (hval.vSub v hv)
      exact hnot
    have hr0 : ∀ r ∈ a.pairs.map (·.2), r ∉ usedR := by
      intro r hr
      obtain ⟨_, _, _, _, hnot, _⟩ := paired_request_waiting usedR a.fleet s r (hval.rSub r hr)
      exact hnot
    have hall : allPairs (a :: more) = a.pairs ++ allPairs more := by simp [allPairs]
    rw [hall, List.map_append, List.map_append]
    refine ⟨?_, ?_, ?_, ?_⟩
    · rw [List.nodup_append]
      refine ⟨hval.vNodup, i1, ?_⟩
      intro x hx y hy hxy
      subst hxy
      exact i3 x hy (List.mem_append_right _ hx)
    · rw [List.nodup_append]
      refine ⟨hval.rNodup, i2, ?_⟩
      intro x hx y hy hxy
      subst hxy
      exact i4 x hy (List.mem_append_right _ hx)
    · intro v hv
      rcases List.mem_append.mp hv with h1 | h1
      · exact hv0 v h1
      · exact fun hu => i3 v h1 (List.mem_append_left _ hu)
    · intro r hr
      rcases List.mem_append.mp hr with h1 | h1
      · exact hr0 r h1
      · exact fun hu => i4 r h1 (List.mem_append_left _ hu)

/-! ### not vacuous: a 2×3 problem with a tie, certified -/

example :
    let c : Nat → Nat → Int := fun i j => if (i, j) = (0, 10) then 4 else if (i, j) = (0, 11) then 1 else
      if (i, j) = (0, 12) then 3 else if (i, j) = (1, 10) then 2 else if (i, j) = (1, 11) then 0 else 2
    completeOk [0, 1] [10, 11, 12] [(0, 11), (1, 10)] = true ∧
    certOk [0, 1] [10, 11, 12] c (fun i => if i = 0 then 3 else 2) (fun j => if j = 11 then -2 else 0)
      [(0, 11), (1, 10)] = true := by decide

end C12
end Hive
