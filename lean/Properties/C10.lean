/-
  Property C10 — fleet membership is enforced on every interaction.

  `inv10` (Hive/Inv.lean): every vehicle that is travelling to, serving, queueing at, charging at
  or parked at a request / station / base is granted access by that entity's membership
  (`grant_access_to_membership`: public, or a fleet in common); for `ChargingBase` both the base
  and the station whose plug is used must grant access.

  Theorems (for every environment, every instruction of any controller):
  * `access_on_enter` — one step: a successful `enter` implies access (the guard facts);
  * `reachable` — `inv10` holds in every reachable state.
  The clause about the built-in dispatcher is `Hive.C12.dispatch_members` (Properties/C12.lean).
-/
import Proofs.C10

namespace Hive
namespace C10

theorem runInv (env : Env) : RunInv env (fun s => inv10 s = true) :=
  vehPred_runInv (accessOk_vehPred env)

/-- whichever controller issued it: if a transition is accepted, the vehicle has access to the
    entity the new activity refers to (in the resulting state) -/
theorem access_on_enter (env : Env) {w w2 : World} {v : VehicleId} {prev next : Act}
    (hwf : w.sim.WF) (h : transition env w v prev next = .ok w2) :
    ∃ veh', w2.sim.vehicle? v = some veh' ∧ accessOk w2.sim veh' = true := by
  unfold transition at h
  simp only [Outcome.bind_eq, Outcome.bind_eq_ok] at h
  obtain ⟨s1, h1, h2⟩ := h
  have hwf1 := (exit_sameIds hwf h1).wf hwf
  have f2 := enter_frame (w := { w with sim := s1 }) hwf1 h2
  obtain ⟨old, veh', _, hn, hsb, _, hpost⟩ := enter_post h2
  exact ⟨veh', hn, accessOk_of_enterPost f2 hsb.members hpost⟩

/-- **C10 (safety clause)**: in every state reachable by any history, every vehicle has access
    to what it is using or heading to -/
theorem reachable (env : Env) {s0 s : Sim} (hwf : s0.WF) (h0 : inv10 s0 = true)
    (h : Reachable env s0 s) : inv10 s = true :=
  reachable_inv (runInv env) hwf h0 h

/-- a rejected-by-membership example is really rejected: the model's `grants` is the code's rule -/
example : Membership.grants [1] [2] = false ∧ Membership.grants [] [2] = true ∧
    Membership.grants [1, 3] [3] = true ∧ Membership.grants [1] [] = false := by decide

/-! non-vacuity: a state with private stations/bases and vehicles of several fleets -/
private def p0 : Pos := ⟨0, 0⟩
private def veh (i : Nat) (m : Membership) (a : Act) : Vehicle := ⟨i, p0, m, 0, ⟨1, 0, 0⟩, a, .autonomous, 0, 0⟩
private def ex : Sim :=
  { time := 0, dt := 60,
    vehicles := [veh 0 [1] (.chargingStation 0 0), veh 1 [1, 2] (.chargingBase 0 0), veh 2 [] (.reserveBase 1),
                 veh 3 [2] (.dispatchStation 1 0 [])],
    stations := [⟨0, p0, [1], [⟨0, true, 50, 2, 0, 0, 0⟩], [], 0, 0, 0⟩, ⟨1, p0, [2, 3], [], [], 0, 0, 0⟩],
    bases := [⟨0, p0, [2], 2, 1, some 0⟩, ⟨1, p0, [], 1, 0, none⟩],
    requests := [], applied := [], vIdx := ⟨[], []⟩, rIdx := ⟨[], []⟩, sIdx := ⟨[], []⟩, bIdx := ⟨[], []⟩ }
example : inv10 ex = true := by decide

end C10
end Hive
