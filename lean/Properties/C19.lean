/-
  C19 — The event log accounts for every state change.

  "The reported events explain the state exactly: per vehicle the distances of its move events
   sum to its odometer and the energies of its charge events sum to the energy it gained; per
   station and step the reported station load equals the sum of that step's charge events there;
   and the summary's request and cancellation counts equal the numbers of add and cancel events.
   Every pickup, drop-off, cancellation and charging step that changes the state is reported
   exactly once, in records that can be parsed back from the written log, and every pickup
   reports a waiting time between zero and the cancellation timeout plus one step."

  What is proved here, for the control model (every state, oracle answer and argument):
  each of the four reporting operations files exactly one event exactly when it changes the
  ledgered quantity, and the event carries exactly the change (`move_reports`, `charge_reports`,
  `pickup_reports`, `dropoff_reports`; admission and cancellation events: `Hive.C11.admission_step`,
  `Hive.C11.cancellation_step`); sums of events over concatenated logs add up (`ledger_compose`),
  so per-step agreement is whole-run agreement; the waiting time is `now − departure` for every
  request that has been admitted and not yet cancelled, hence inside `[0, timeout)`
  (`pickup_wait_range`) - and per step of the cycle `step_pickup_waits`: after the pre-step phase
  and any instructions, vehicle updates and driver phases, every pickup event of the step reports a
  waiting time strictly between zero and the timeout (the premise, every waiting request has
  departed, is re-established after the tick: an invariant of the cycle).

  Over whole runs (`Proofs.Books`: one walk through every function of the control model, lifted
  through `apply_instructions`, `perform_vehicle_state_updates` and the other phases of the
  cycle): `run_odometer_energy` — in every world (state + log) reachable from a state with an
  empty log, by any history, each vehicle's odometer is its initial value plus the distances of
  its move events and its energy gained the initial value plus the energies of its charge events;
  pickups, cancellations: `C03.run_resolved_once`, `C03.run_none_vanishes`.

  Partial: the file-writing handlers, the station load records (a per-step aggregate filed by the
  reporter, not by the control functions) and the summary counts are outside the model; they are
  decided on whole runs of the implementation by `Hive.EventLedger.violEvents` (events layer), and
  the events themselves by comparing the model's with the implementation's after every phase of
  adversarial histories (history layer).
-/
import Hive.EventLedger
import Proofs.EnterPost
import Proofs.Books
import Proofs.Waits
import Mathlib.Tactic.Linarith
import Mathlib.Tactic.Ring
import Mathlib.Algebra.Order.Field.Rat

namespace Hive
namespace C19

variable {env : Env}

/-! ### the ledger: sums of events per vehicle -/

def moveKm (log : List Event) (v : VehicleId) : Rat :=
  (log.map fun
    | .move v' km _ => if v' = v then km else 0
    | _ => 0).sum

def chargeSum (log : List Event) (v : VehicleId) : Rat :=
  (log.map fun
    | .charge v' _ _ amount _ => if v' = v then amount else 0
    | _ => 0).sum

theorem moveKm_append (a b : List Event) (v : VehicleId) : moveKm (a ++ b) v = moveKm a v + moveKm b v := by
  unfold moveKm; rw [List.map_append, List.sum_append]

theorem chargeSum_append (a b : List Event) (v : VehicleId) : chargeSum (a ++ b) v = chargeSum a v + chargeSum b v := by
  unfold chargeSum; rw [List.map_append, List.sum_append]

/-- **per-step agreement composes to whole-run agreement**: if over each of a sequence of steps a
    quantity changes by exactly the sum of the events filed in that step, then over the whole
    sequence it changes by the sum of all events -/
theorem ledger_compose (sumEv : List Event → Rat) (hadd : ∀ a b, sumEv (a ++ b) = sumEv a + sumEv b)
    (hnil : sumEv [] = 0) (q : Nat → Rat) (ev : Nat → List Event) (n : Nat)
    (hstep : ∀ k, k < n → q (k + 1) - q k = sumEv (ev k)) :
    q n - q 0 = sumEv ((List.range n).flatMap ev) := by
  induction n with
  | zero => simp [hnil]
  | succ n ih =>
    rw [List.range_succ, List.flatMap_append, hadd, ← ih (fun k hk => hstep k (by omega))]
    simp only [List.flatMap_cons, List.flatMap_nil, List.append_nil]
    rw [← hstep n (by omega)]
    ring

/-! ### the four reporting operations -/

/-- **`move`**: either nothing is reported and the odometer stands still, or exactly one move
    event is appended whose distance is exactly the odometer's advance -/
theorem move_reports {w w2 : World} {v : VehicleId} {veh : Vehicle} (hveh : w.sim.vehicle? v = some veh)
    (h : move env w v = .ok w2) :
    ∃ veh', w2.sim.vehicle? v = some veh' ∧
      ((w2.log = w.log ∧ veh'.odo = veh.odo) ∨
       (∃ km e, w2.log = w.log ++ [Event.move v km e] ∧ veh'.odo = veh.odo + km ∧ e = veh'.en.level - veh.en.level)) := by
  have hid := (vehicle?_some hveh).2
  unfold move at h
  rw [hveh] at h
  simp only at h
  split at h
  · cases h
  · split at h
    · cases h
    · next route hroute =>
      simp only [Outcome.bind_eq, Outcome.bind_eq_ok, Outcome.pure_eq] at h
      obtain ⟨tr, htr, h⟩ := h
      split at h
      · simp only [Outcome.bind_eq, Outcome.bind_eq_ok, Outcome.pure_eq] at h
        obtain ⟨s2, h1, h2⟩ := h
        cases h2
        have := modifyVehicle_self h1
        simp only at this
        rw [hid] at this
        exact ⟨_, this, Or.inl ⟨rfl, rfl⟩⟩
      · split at h
        · simp only [Outcome.bind_eq, Outcome.bind_eq_ok, Outcome.pure_eq] at h
          obtain ⟨s2, h1, h2⟩ := h
          cases h2
          obtain ⟨veh1, hv1, hv2⟩ := applyAct_self h1
          have hsame : veh1 = veh := by
            split at hv1
            · next s' hexit =>
              rw [vehicle?_congr (exit_frame hexit).1, hveh] at hv1
              exact (Option.some.inj hv1).symm
            · rw [hveh] at hv1
              exact (Option.some.inj hv1).symm
          subst hsame
          exact ⟨_, hv2, Or.inl ⟨rfl, rfl⟩⟩
        · split at h
          · cases h
          · next last _ =>
            simp only [Outcome.bind_eq, Outcome.bind_eq_ok, Outcome.pure_eq] at h
            obtain ⟨s2, h1, h2⟩ := h
            cases h2
            have := modifyVehicle_self h1
            simp only at this
            rw [hid] at this
            exact ⟨_, this, Or.inr ⟨tr.km, _, rfl, rfl, rfl⟩⟩

theorem modifyStation_self' {s s' : Sim} {st' : Station} (h : s.modifyStation env st' = .ok s') :
    s'.station? st'.id = some st' := by
  obtain ⟨⟨old, hold, _⟩, hstn, _⟩ := Sim.modifyStation_fields h
  unfold Sim.station? at *
  rw [hstn]
  exact lookup_replaceById_self hold

/-- **`charge`**: exactly one charge event is appended; its energy is exactly what the vehicle's
    level rose by and what the station's counter of dispensed energy (of that energy type) rose by,
    its price exactly what moved from the vehicle's balance to the station's -/
theorem charge_reports {w w2 : World} {v : VehicleId} {sid : StationId} {cid : ChargerId}
    (h : charge env w v sid cid = .ok w2) :
    ∃ veh veh' st st' cs amount cost, w.sim.vehicle? v = some veh ∧ w.sim.station? sid = some st ∧
      st.plug? cid = some cs ∧ w2.sim.vehicle? v = some veh' ∧ w2.sim.station? sid = some st' ∧
      w2.log = w.log ++ [Event.charge v sid cid amount cost] ∧
      amount = veh'.en.level - veh.en.level ∧ cost = amount * cs.price ∧
      veh'.balance = veh.balance - cost ∧ st'.balance = st.balance + cost ∧
      (st'.dispE - st.dispE) + (st'.dispG - st.dispG) = amount := by
  unfold charge at h
  split at h
  · cases h
  · next st hst =>
    split at h
    · cases h
    · next veh hveh =>
      split at h
      · cases h
      · split at h
        · cases h
        · next cs hcs =>
          split at h
          · cases h
          · simp only [Outcome.bind_eq, Outcome.bind_eq_ok, Outcome.pure_eq] at h
            obtain ⟨s1, h1, s2, h2, h3⟩ := h
            cases h3
            have hid := (vehicle?_some hveh).2
            have hsid := (station?_some hst).2
            have hv1 := modifyVehicle_self h1
            simp only at hv1
            rw [hid] at hv1
            have hv2' : s2.vehicle? v = s1.vehicle? v := by
              unfold Sim.vehicle?
              rw [(Sim.modifyStation_fields h2).2.2.2.1]
            have hv2 := hv2'.trans hv1
            have hs2 := modifyStation_self' h2
            simp only at hs2
            rw [hsid] at hs2
            refine ⟨veh, _, st, _, cs, (env.addEnergy veh cs w.sim.dt).level - veh.en.level,
              ((env.addEnergy veh cs w.sim.dt).level - veh.en.level) * cs.price,
              hveh, hst, hcs, hv2, hs2, rfl, rfl, rfl, rfl, rfl, ?_⟩
            simp only
            split <;> ring

/-- **`pick_up_trip`**: exactly one pickup event is appended, for this vehicle and request, with
    the request's fare (credited to the vehicle) and the time since the request's departure; the
    request leaves the waiting set -/
theorem pickup_reports {w w2 : World} {v : VehicleId} {rid : RequestId} (h : pickUpTrip env w v rid = .ok w2) :
    ∃ veh req veh', w.sim.vehicle? v = some veh ∧ w.sim.request? rid = some req ∧ w2.sim.vehicle? v = some veh' ∧
      w2.log = w.log ++ [Event.pickup v rid req.value ((w.sim.time - req.departure) % 86400)] ∧
      veh'.balance = veh.balance + req.value ∧ w2.sim.request? rid = none := by
  unfold pickUpTrip at h
  split at h
  · cases h
  · cases h
  · next veh req hveh hreq =>
    simp only [Outcome.bind_eq, Outcome.bind_eq_ok, Outcome.pure_eq] at h
    obtain ⟨s1, h1, s2, h2, h3⟩ := h
    cases h3
    have hid := (vehicle?_some hveh).2
    have hv1 := modifyVehicle_self h1
    simp only at hv1
    obtain ⟨_, hr2, _, _, hveq, _, _⟩ := Sim.removeRequest_fields h2
    have ht : s1.time = w.sim.time := (Sim.modifyVehicle_fields h1).2.2.2.2.2.1
    refine ⟨veh, req, { veh with balance := veh.balance + req.value }, hveh, hreq, ?_, by rw [ht], rfl, ?_⟩
    · rw [← hid, ← hv1]; unfold Sim.vehicle?; rw [hveq]
    · unfold Sim.request?; rw [hr2]; exact lookup_removeById_self _ _

/-- the waiting time of a request that has departed and whose cancellation deadline has not
    passed (which is what admission and cancellation guarantee of every waiting request, C11) is
    the plain difference, inside `[0, timeout)` -/
theorem pickup_wait_range (now dep timeout : Int) (h1 : dep ≤ now) (h2 : now < dep + timeout) (h3 : timeout ≤ 86400) :
    (now - dep) % 86400 = now - dep ∧ 0 ≤ now - dep ∧ now - dep < timeout := by
  refine ⟨Int.emod_eq_of_lt (by omega) (by omega), by omega, by omega⟩

/-- **`drop_off_trip`**: exactly one drop-off event is appended and the state is untouched -/
theorem dropoff_reports {w w2 : World} {v : VehicleId} {req : Request} (h : dropOffTrip w v req = .ok w2) :
    w2.sim = w.sim ∧ w2.log = w.log ++ [Event.dropoff v req.id] := by
  unfold dropOffTrip at h
  split at h
  · cases h
  · split at h
    · cases h
    · cases h; exact ⟨rfl, rfl⟩

/-! ### not vacuous -/

example : moveKm [.move 1 2 0, .move 2 5 0, .dropoff 1 7, .move 1 (1/2) 0] 1 = 5/2 := by decide +kernel

/-! ### over whole runs -/

/-- **per vehicle the distances of its move events sum to its odometer and the energies of its
    charge events sum to the energy it gained** - every history of the complete cycle -/
theorem run_odometer_energy {env : Env} (hg : Books.GainEnv env) {w0 w : World} (h : WReachable env w0 w)
    (h0 : w0.log = []) {v : VehicleId} {veh0 veh : Vehicle} (hv0 : w0.sim.vehicle? v = some veh0)
    (hv : w.sim.vehicle? v = some veh) :
    veh.odo = veh0.odo + Books.moveKm w.log v ∧ veh.en.gained = veh0.en.gained + Books.charged w.log v := by
  obtain ⟨a, _, c⟩ := Books.run_vehicle hg h h0 hv0 hv
  exact ⟨a, c⟩

/-- vehicles and stations neither appear nor disappear along a run -/
theorem run_entities {env : Env} (hg : Books.GainEnv env) {w0 w : World} (h : WReachable env w0 w)
    (v : VehicleId) (i : StationId) :
    ((w.sim.vehicle? v).isSome = (w0.sim.vehicle? v).isSome) ∧ ((w.sim.station? i).isSome = (w0.sim.station? i).isSome) :=
  Books.run_entities hg h v i


/-! ### waiting times, per step of the cycle -/

/-- **every pickup reports a waiting time between zero and the cancellation timeout** (stronger
    than the statement's "plus one step"): from a well-formed state in which every waiting request
    has departed, after the pre-step phase of the cycle (price update, admission of the rows of the
    window - distinct fresh ids -, cancellation) and any sequence of instruction lists, vehicle
    updates, driver phases (`Waits.MidReach`), every pickup event of the step has
    `0 < wait < timeout`; the state is well-formed and after the tick every waiting request has
    departed again, so the premises hold at the start of the next step -/
theorem step_pickup_waits {env : Env} (cfg : Timed.Cfg) (names : Nat → List StationId) (hf : ∀ c, env.inFence c = true)
    (inp : Timed.Inputs) (s : Sim) (hI : Timed.RInv env s) (hwf : s.WF) (hT : cfg.timeout ≤ 86400)
    (hnd : ((inp.requests.read (fun r => r.req.departure) s.time).1.map (·.req.id)).Nodup)
    (hfresh : ∀ row ∈ (inp.requests.read (fun r => r.req.departure) s.time).1, row.req.id ∉ s.requests.map (·.id))
    (hwin : ∀ r ∈ s.requests, r.departure < s.time)
    {w2 : World} (h : Waits.MidReach env (Timed.preStep env cfg names inp ⟨s, []⟩).1 w2) :
    (∀ v r f wt, Event.pickup v r f wt ∈ w2.log → 0 < wt ∧ wt < cfg.timeout) ∧
    w2.sim.WF ∧ (∀ r ∈ w2.sim.tick.requests, r.departure < w2.sim.tick.time) :=
  Waits.step_pickup_waits cfg names hf inp s hI hwf hT hnd hfresh hwin h

end C19
end Hive
