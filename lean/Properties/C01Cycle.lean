/-
  C01 — order independence over the complete cycle.

  `Properties/C01Walk.lean` covers the control step. Here the remaining phases of
  `Update.apply_update` as they appear in `WPhase` (Proofs/WorldRun): request arrival
  (`add_request_safe`), cancellation, the charging price update and the driver phase. Result:

    theorem reachable_order_independent :
      PermW w0 w0' → WReachable env w0 w → ∃ w', WReachable env w0' w' ∧ PermW w w'

  - from any permutation of the initial entity maps, the same phases are possible and lead to a
  permutation of the same world with the *same event log*; with `observations_agree`, every lookup
  by id, the clock and the log agree after every phase. Hypothesis: an environment that refuses no
  cell by geofence (needed only by the closed form of the price update, as in `Properties/Full`).

  Also here: the pre-step phase as the model composes it from the input files (`preStep_permW`:
  price update, admission through the reader, cancellation in id order) and
  `full_run_order_independent` - whole runs of the model (pre-step, driver phase, instructions,
  vehicle updates, clock; same files, same shift table, same instruction lists) from two hand-out
  orders of one state stay related after every step, with identical logs and reader states.

  Still outside (C01 stays PARTIAL): the file readers' own state (no hash order in it), the
  instruction generators, rankings and reporters - decided by the hash-seed runs.
-/
import Properties.C01Walk
import Properties.C11
import Proofs.WorldRun
import Proofs.Cosmetic

namespace Hive
namespace C01

section
variable (env : Env)

theorem not_mem_keys_of_any_false {α : Type} (key : α → Nat) (xs : List α) (x : α)
    (h : xs.any (fun y => key y == key x) = false) : key x ∉ xs.map key := by
  intro hm
  obtain ⟨y, hy, hk⟩ := List.mem_map.mp hm
  have : xs.any (fun y => key y == key x) = true := List.any_eq_true.mpr ⟨y, hy, by simpa using hk⟩
  rw [h] at this
  cases this

theorem nodup_keys_upsert {α : Type} (key : α → Nat) (xs : List α) (x : α) (hn : (xs.map key).Nodup) :
    ((upsert key xs x).map key).Nodup := by
  unfold upsert
  cases hany : xs.any (fun y => key y == key x)
  · simp only [Bool.false_eq_true, if_false, List.map_append, List.map_cons, List.map_nil]
    have hnot := not_mem_keys_of_any_false key xs x hany
    rw [List.nodup_append]
    refine ⟨hn, by simp, ?_⟩
    intro a ha b hb
    simp only [List.mem_singleton] at hb
    subst hb
    intro hab
    subst hab
    exact hnot ha
  · simp only [if_true, map_key_replaceById]
    exact hn

/-- **`add_request_safe`** (an id that is already present is removed first) -/
theorem addRequest_permU {s s' : Sim} (h : PermU s s') (r : Request) :
    ORel PermU (s.addRequest env r) (s'.addRequest env r) := by
  unfold Sim.addRequest
  refine ite_rel (fun _ => trivial) (fun _ => ?_)
  rw [← h.1.request? h.2 r.id]
  cases s.request? r.id with
  | none =>
    simp only
    exact ⟨{ h.1 with requests := upsert_perm Request.id h.1.requests r, rIdx := index_add_eqv env.parent h.1.rIdx r.pos.cell r.id },
      { h.2 with requests := nodup_keys_upsert Request.id _ r h.2.requests }⟩
  | some old =>
    simp only
    refine ORel.bind (removeRequest_permU env h r.id) (fun a b hab => ?_)
    exact ⟨{ hab.1 with requests := upsert_perm Request.id hab.1.requests r, rIdx := index_add_eqv env.parent hab.1.rIdx r.pos.cell r.id },
      { hab.2 with requests := nodup_keys_upsert Request.id _ r hab.2.requests }⟩

theorem repriceFold_applied (names : Nat → List StationId) (rows : List Timed.PriceRow) (ids : List StationId) :
    ∀ s : Sim, (ids.foldl (Timed.repriceStation env names rows) s).applied = s.applied := by
  induction ids with
  | nil => intro s; rfl
  | cons i ids ih =>
    intro s
    simp only [List.foldl_cons]
    rw [ih]
    unfold Timed.repriceStation
    split
    · rfl
    · split
      · split
        · next s2 hs2 =>
          unfold Sim.modifyStation at hs2
          split at hs2
          · cases hs2
          · split at hs2
            · cases hs2
            · split at hs2
              · cases hs2
              · cases hs2; rfl
        · rfl
      · rfl

/-- **the charging price update does not depend on the hand-out order** (environment without a
    geofence refusal, as in `Properties/Full.lean`): each station is repriced from the window's rows
    and its own id alone -/
theorem priceUpdate_permU (hf : ∀ c, env.inFence c = true) {s s' : Sim} (h : PermU s s')
    (names : Nat → List StationId) (rd : Timed.Reader Timed.PriceRow) :
    PermU (Timed.priceUpdate env names rd s).1 (Timed.priceUpdate env names rd s').1 ∧
    (Timed.priceUpdate env names rd s).2 = (Timed.priceUpdate env names rd s').2 := by
  have hu' := h.1.uniqueIds h.2
  obtain ⟨p1, p2, p3, p4, p5, p6, p7⟩ := C11.price_update_frame (env := env) names rd s hf h.2.stations
  obtain ⟨q1, q2, q3, q4, q5, q6, q7⟩ := C11.price_update_frame (env := env) names rd s' hf hu'.stations
  obtain ⟨i1, i2, i3⟩ := repriceFold_idx (env := env) names (rd.read (·.time) s.time).1 (s.stations.map (·.id)) s
  obtain ⟨j1, j2, j3⟩ := repriceFold_idx (env := env) names (rd.read (·.time) s'.time).1 (s'.stations.map (·.id)) s'
  have a1 := repriceFold_applied env names (rd.read (·.time) s.time).1 (s.stations.map (·.id)) s
  have a2 := repriceFold_applied env names (rd.read (·.time) s'.time).1 (s'.stations.map (·.id)) s'
  refine ⟨⟨⟨?_, ?_, ?_, ?_, ?_, ?_, ?_, ?_, ?_, ?_, ?_⟩, ⟨?_, ?_, ?_, ?_⟩⟩, ?_⟩
  · rw [p4, q4]; exact h.1.time
  · rw [p5, q5]; exact h.1.dt
  · rw [p2, q2]; exact h.1.vehicles
  · rw [p7, q7, ← h.1.time]; exact h.1.stations.map _
  · rw [p3, q3]; exact h.1.bases
  · rw [p1, q1]; exact h.1.requests
  · show (Timed.priceUpdate env names rd s).1.applied.Perm (Timed.priceUpdate env names rd s').1.applied
    unfold Timed.priceUpdate
    simp only
    rw [a1, a2]; exact h.1.applied
  · show IdxEqv (Timed.priceUpdate env names rd s).1.vIdx (Timed.priceUpdate env names rd s').1.vIdx
    unfold Timed.priceUpdate; simp only; rw [i1, j1]; exact h.1.vIdx
  · rw [p6, q6]; exact h.1.rIdx
  · show IdxEqv (Timed.priceUpdate env names rd s).1.sIdx (Timed.priceUpdate env names rd s').1.sIdx
    unfold Timed.priceUpdate; simp only; rw [i2, j2]; exact h.1.sIdx
  · show IdxEqv (Timed.priceUpdate env names rd s).1.bIdx (Timed.priceUpdate env names rd s').1.bIdx
    unfold Timed.priceUpdate; simp only; rw [i3, j3]; exact h.1.bIdx
  · rw [p2]; exact h.2.vehicles
  · rw [p7, List.map_map]
    have : (Station.id ∘ fun st => if Timed.touched names (rd.read (·.time) s.time).1 st.id
        then Timed.repriced names (rd.read (·.time) s.time).1 st else st) = Station.id := by
      funext st; simp only [Function.comp]; split <;> rfl
    rw [this]; exact h.2.stations
  · rw [p3]; exact h.2.bases
  · rw [p1]; exact h.2.requests
  · unfold Timed.priceUpdate; simp only [h.1.time]

/-- one driver's update (`s0`: the state the phase began with, returned when an update fails) -/
theorem driverUpdate_permW (tbl : List Shift.Entry) {s0 s0' : Sim} (h0 : PermU s0 s0') {w w' : World}
    (hw : PermW w w') (veh : Vehicle) :
    PermW (Shift.driverUpdate env tbl s0 w veh) (Shift.driverUpdate env tbl s0' w' veh) := by
  unfold Shift.driverUpdate
  cases veh.driver with
  | autonomous => exact hw
  | human avail sched home pooling =>
    simp only [← hw.1.1.time, ← hw.1.1.vehicle? hw.1.2]
    refine ite_rel (fun _ => hw) (fun _ => ?_)
    cases w.sim.vehicle? veh.id with
    | none => exact ⟨h0, hw.2⟩
    | some cur =>
      simp only
      have hm := modifyVehicle_permU env hw.1 { cur with driver := .human (Shift.want tbl w.sim.time avail sched) sched home pooling }
      cases hx : w.sim.modifyVehicle env { cur with driver := .human (Shift.want tbl w.sim.time avail sched) sched home pooling } <;>
        cases hy : w'.sim.modifyVehicle env { cur with driver := .human (Shift.want tbl w.sim.time avail sched) sched home pooling } <;>
        rw [hx, hy] at hm <;> first | exact hm.elim | skip
      · exact ⟨hm, by simp only [hw.2]⟩
      · exact ⟨h0, by simp only [hw.2]⟩
      · exact ⟨h0, by simp only [hw.2]⟩

/-- **the driver phase (`perform_driver_state_updates`) does not depend on the hand-out order** -/
theorem driverUpdates_permW (tbl : List Shift.Entry) {w w' : World} (hw : PermW w w') :
    PermW (Shift.driverUpdates env tbl w) (Shift.driverUpdates env tbl w') := by
  unfold Shift.driverUpdates
  have hord : sortBy (fun (a b : Vehicle) => decide (a.id ≤ b.id)) w.sim.vehicles =
      sortBy (fun (a b : Vehicle) => decide (a.id ≤ b.id)) w'.sim.vehicles := by
    apply sortBy_eq_of_perm_on
    · intro a b; simp only [decide_eq_true_eq]; exact Nat.le_total a.id b.id
    · intro a b c; simp only [decide_eq_true_eq]; exact Nat.le_trans
    · intro a ha b hb h1 h2
      simp only [decide_eq_true_eq] at h1 h2
      exact eq_of_id_eq hw.1.2.vehicles ha hb (Nat.le_antisymm h1 h2)
    · exact hw.1.1.vehicles
  rw [← hord]
  have h0 := hw.1
  generalize sortBy (fun (a b : Vehicle) => decide (a.id ≤ b.id)) w.sim.vehicles = order
  have : ∀ (acc acc' : World), PermW acc acc' →
      PermW (order.foldl (Shift.driverUpdate env tbl w.sim) acc) (order.foldl (Shift.driverUpdate env tbl w'.sim) acc') := by
    induction order with
    | nil => intro acc acc' h; exact h
    | cons x xs ih => intro acc acc' h; exact ih _ _ (driverUpdate_permW env tbl h0 h x)
  exact this w w' hw

/-- **every phase of the complete cycle can be followed from the other hand-out order**: whatever
    one run does in a phase (instruction lists, vehicle updates, clock, an arrival, a cancellation,
    a price window, the driver phase), the run that started from a permutation of the same state
    does the same phase and ends in a permutation of the same state with the same event log -/
theorem wphase_perm (hf : ∀ c, env.inFence c = true) {w w1 w' : World} (hw : PermW w w')
    (hp : WPhase env w w1) : ∃ w1', WPhase env w' w1' ∧ PermW w1 w1' := by
  cases hp with
  | instructions is => exact ⟨_, .instructions w' is, applyInstructions_permW env hw is⟩
  | updates => exact ⟨_, .updates w', vehicleUpdates_permW env hw⟩
  | tick => exact ⟨_, .tick w', tick_permW hw⟩
  | @arrival s1 r h1 h2 h3 hadd =>
    have ha := addRequest_permU env hw.1 r
    rw [hadd] at ha
    cases hy : w'.sim.addRequest env r with
    | ok s1' =>
      rw [hy] at ha
      refine ⟨{ sim := s1', log := w'.log ++ [Event.addRequest r.id] }, .arrival ?_ ?_ ?_ hy, ⟨ha, by simp only [hw.2]⟩⟩
      · intro hm
        apply h1
        unfold Reqs.ids at hm ⊢
        exact (hw.1.1.requests.map _).mem_iff.mpr hm
      · rw [← hw.2]; exact h2
      · rw [← hw.2]; exact h3
    | rejected => rw [hy] at ha; exact ha.elim
    | error => rw [hy] at ha; exact ha.elim
  | @cancel s1 i hrem =>
    have hr := removeRequest_permU env hw.1 i
    rw [hrem] at hr
    cases hy : w'.sim.removeRequest env i with
    | ok s1' =>
      rw [hy] at hr
      exact ⟨{ sim := s1', log := w'.log ++ [Event.cancelRequest i] }, .cancel hy, ⟨hr, by simp only [hw.2]⟩⟩
    | rejected => rw [hy] at hr; exact hr.elim
    | error => rw [hy] at hr; exact hr.elim
  | prices names rd =>
    exact ⟨_, .prices w' names rd, ⟨(priceUpdate_permU env hf hw.1 names rd).1, hw.2⟩⟩
  | drivers tbl => exact ⟨_, .drivers w' tbl, driverUpdates_permW env tbl hw⟩

/-- **C01 in the model, over the complete cycle**: every world reachable from `w0` by any sequence
    of phases has a counterpart reachable from any permutation `w0'` of `w0` by the same phases, which
    is a permutation of it with the *same event log* - and hence (`observations_agree`) answers
    every lookup by id identically -/
theorem reachable_order_independent (hf : ∀ c, env.inFence c = true) {w0 w0' w : World}
    (h0 : PermW w0 w0') (hr : WReachable env w0 w) : ∃ w', WReachable env w0' w' ∧ PermW w w' := by
  induction hr with
  | init => exact ⟨w0', .init, h0⟩
  | step _ hp ih =>
    obtain ⟨v, hv, hwv⟩ := ih
    obtain ⟨v1, hp1, hw1⟩ := wphase_perm env hf hwv hp
    exact ⟨v1, .step hv hp1, hw1⟩

end

/-! ### the pre-step phase from the input files, and whole runs -/

section
variable (env : Env)

theorem admitRow_permW (cfg : Timed.Cfg) {w w' : World} (hw : PermW w w') (row : Timed.ReqRow) :
    PermW (Timed.admitRow env cfg w row) (Timed.admitRow env cfg w' row) := by
  unfold Timed.admitRow
  rw [← hw.1.1.time]
  refine ite_rel (fun _ => ?_) (fun _ => hw)
  have ha := addRequest_permU env hw.1 row.req
  cases hx : w.sim.addRequest env row.req <;> cases hy : w'.sim.addRequest env row.req <;>
    rw [hx, hy] at ha <;> first | exact ha.elim | exact hw | skip
  exact ⟨ha, by simp only [hw.2]⟩

/-- **request admission from the file reader (`UpdateRequestsFromFile.update`)** -/
theorem admitRequests_permW (cfg : Timed.Cfg) (rd : Timed.Reader Timed.ReqRow) {w w' : World} (hw : PermW w w') :
    PermW (Timed.admitRequests env cfg rd w).1 (Timed.admitRequests env cfg rd w').1 ∧
    (Timed.admitRequests env cfg rd w).2 = (Timed.admitRequests env cfg rd w').2 := by
  unfold Timed.admitRequests
  simp only [← hw.1.1.time]
  refine ⟨?_, trivial⟩
  generalize (rd.read (fun r => r.req.departure) w.sim.time).1 = rows
  induction rows generalizing w w' with
  | nil => exact hw
  | cons r rs ih => exact ih (admitRow_permW env cfg hw r)

theorem cancelOne_permW (cfg : Timed.Cfg) {w w' : World} (hw : PermW w w') (i : RequestId) :
    PermW (Timed.cancelOne env cfg w i) (Timed.cancelOne env cfg w' i) := by
  unfold Timed.cancelOne
  rw [← hw.1.1.request? hw.1.2 i, ← hw.1.1.time]
  cases w.sim.request? i with
  | none => exact hw
  | some r =>
    simp only
    refine ite_rel (fun _ => hw) (fun _ => ?_)
    have hr := removeRequest_permU env hw.1 i
    cases hx : w.sim.removeRequest env i <;> cases hy : w'.sim.removeRequest env i <;>
      rw [hx, hy] at hr <;> first | exact hr.elim | exact hw | skip
    exact ⟨hr, by simp only [hw.2]⟩

/-- **cancellation (`CancelRequests.update`)**: the expired requests are visited in id order whatever
    the order of the request map (`id_order_invariant`) -/
theorem cancelRequests_permW (cfg : Timed.Cfg) {w w' : World} (hw : PermW w w') :
    PermW (Timed.cancelRequests env cfg w) (Timed.cancelRequests env cfg w') := by
  unfold Timed.cancelRequests
  rw [← id_order_invariant (hw.1.1.requests.map Request.id)]
  generalize sortBy (fun a b => decide (a ≤ b)) (w.sim.requests.map (·.id)) = order
  induction order generalizing w w' with
  | nil => exact hw
  | cons i is ih => exact ih (cancelOne_permW env cfg hw i)

/-- **the pre-step part of `Update.apply_update`** (price update, admission, cancellation) -/
theorem preStep_permW (hf : ∀ c, env.inFence c = true) (cfg : Timed.Cfg) (names : Nat → List StationId)
    (inp : Timed.Inputs) {w w' : World} (hw : PermW w w') :
    PermW (Timed.preStep env cfg names inp w).1 (Timed.preStep env cfg names inp w').1 ∧
    (Timed.preStep env cfg names inp w).2 = (Timed.preStep env cfg names inp w').2 := by
  unfold Timed.preStep
  simp only
  obtain ⟨hp, hp2⟩ := priceUpdate_permU env hf hw.1 names inp.prices
  have hw1 : PermW { w with sim := (Timed.priceUpdate env names inp.prices w.sim).1 }
      { w' with sim := (Timed.priceUpdate env names inp.prices w'.sim).1 } := ⟨hp, hw.2⟩
  obtain ⟨ha, ha2⟩ := admitRequests_permW env cfg inp.requests hw1
  refine ⟨cancelRequests_permW env cfg ha, ?_⟩
  rw [hp2, ha2]

/-- one whole step of the model as `Update.apply_update` + `StepSimulation.update` compose it:
    pre-step phase from the input files, driver phase, instruction phase, vehicle updates, clock -/
def fullStep (cfg : Timed.Cfg) (names : Nat → List StationId) (tbl : List Shift.Entry)
    (st : World × Timed.Inputs) (is : List Instr) : World × Timed.Inputs :=
  let p := Timed.preStep env cfg names st.2 st.1
  let w1 := Shift.driverUpdates env tbl p.1
  let w2 := vehicleUpdates env (applyInstructions env w1 is)
  ({ w2 with sim := w2.sim.tick }, p.2)

/-- **C01 for whole runs of the model**: two runs fed with the same input files, the same shift
    table and the same instruction lists, started from two hand-out orders of one state, stay two
    hand-out orders of one state after every step - with identical event logs and identical reader
    states -/
theorem full_run_order_independent (hf : ∀ c, env.inFence c = true) (cfg : Timed.Cfg)
    (names : Nat → List StationId) (tbl : List Shift.Entry) {w w' : World} (inp : Timed.Inputs)
    (hw : PermW w w') (iss : List (List Instr)) :
    PermW (iss.foldl (fullStep env cfg names tbl) (w, inp)).1 (iss.foldl (fullStep env cfg names tbl) (w', inp)).1 ∧
    (iss.foldl (fullStep env cfg names tbl) (w, inp)).2 = (iss.foldl (fullStep env cfg names tbl) (w', inp)).2 := by
  induction iss generalizing w w' inp with
  | nil => exact ⟨hw, rfl⟩
  | cons is rest ih =>
    simp only [List.foldl_cons]
    obtain ⟨hp, hp2⟩ := preStep_permW env hf cfg names inp hw
    have h1 := driverUpdates_permW env tbl hp
    have h2 := tick_permW (vehicleUpdates_permW env (applyInstructions_permW env h1 is))
    have e1 : fullStep env cfg names tbl (w, inp) is =
        ({ (vehicleUpdates env (applyInstructions env (Shift.driverUpdates env tbl (Timed.preStep env cfg names inp w).1) is)) with
            sim := (vehicleUpdates env (applyInstructions env (Shift.driverUpdates env tbl (Timed.preStep env cfg names inp w).1) is)).sim.tick },
         (Timed.preStep env cfg names inp w).2) := rfl
    have e2 : fullStep env cfg names tbl (w', inp) is =
        ({ (vehicleUpdates env (applyInstructions env (Shift.driverUpdates env tbl (Timed.preStep env cfg names inp w').1) is)) with
            sim := (vehicleUpdates env (applyInstructions env (Shift.driverUpdates env tbl (Timed.preStep env cfg names inp w').1) is)).sim.tick },
         (Timed.preStep env cfg names inp w').2) := rfl
    rw [e1, e2, ← hp2]
    exact ih _ h2

end


end C01
end Hive
