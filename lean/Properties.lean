import Properties.C02
