import Properties.C02
import Properties.C10
import Properties.C17
import Properties.C07
import Properties.C06
import Properties.C08
import Properties.C09
import Properties.C03
