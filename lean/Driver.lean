/-
  Driver — line-protocol interpreter:  lake env lean --run Driver.lean < trace.jsonl
  One JSON object per input line, one JSON object per output line.
-/
import Hive.Json
import Hive.Canon
import Hive.Monitor
import Hive.MonitorTrav
import Hive.Stack
import Hive.Ledger
import Hive.MonitorTimed
import Hive.Shift
import Hive.Cycle
import Hive.Dispatch
import Hive.Router
import Hive.EventLedger
import Hive.Lookup
import Hive.Layout

open Lean Hive

structure DState where
  mechs : List Mech := []
  ledger : Ledger := {}
  joined : Joined := []

def getField {α} [FromJson α] (j : Json) (k : String) : Except String α :=
  match j.getObjVal? k with
  | .ok v => match fromJson? v with
    | .ok a => .ok a
    | .error e => .error s!"field {k}: {e}"
  | .error e => .error e

def optField {α} [FromJson α] (j : Json) (k : String) (dflt : α) : Except String α :=
  match j.getObjVal? k with
  | .ok .null => .ok dflt
  | .ok v => match fromJson? v with
    | .ok a => .ok a
    | .error e => .error s!"field {k}: {e}"
  | .error _ => .ok dflt

def strs (xs : List String) : Json := Json.arr (xs.map Json.str).toArray

/-- C09 on implementation data: one instruction applied alone -/
def violAtomic (pre post : Sim) (i : Instr) : List String :=
  let same := (diffFlat pre.flat post.flat).isEmpty
  if same then [] else
    match post.vehicle? i.vehicle with
    | none => ["C09/partial-effect| state changed but the instructed vehicle does not exist"]
    | some veh =>
      let entered : Bool := match i, veh.act with
        | .idle _, .idle _ => true
        | .dispatchTrip _ r, .dispatchTrip r' _ => r == r'
        | .dispatchStation _ s c, .dispatchStation s' c' _ => s == s' && c == c'
        | .dispatchStation _ s c, .chargingStation s' c' => s == s' && c == c'
        | .chargeStation _ s c, .chargingStation s' c' => s == s' && c == c'
        | .chargeBase _ b c, .chargingBase b' c' => b == b' && c == c'
        | .dispatchBase _ b, .dispatchBase b' _ => b == b'
        | .reposition _ _, .repositioning _ => true
        | .reserveBase _ b, .reserveBase b' => b == b'
        | .outOfService _, .outOfService => true
        | _, _ => false
      let recorded := post.applied.any (fun p => p.1 == i.vehicle && p.2 == i)
      (if entered then [] else [s!"C09/partial-effect| the state changed although vehicle {i.vehicle} did not enter the instructed activity (now {veh.act.kind})"]) ++
      (if recorded then [] else [s!"C09/not-recorded| accepted instruction for vehicle {i.vehicle} is missing from applied_instructions"])

/-- handle one phase record: run the model from the implementation's pre-state, compare with the
    implementation's post-state, evaluate the monitors on the implementation's post-state -/
def handlePhase (st : DState) (op : String) (j : Json) : Except String (Ledger × Json) := do
  let oracle : Oracle ← optField j "oracle" {}
  let pre : Sim ← getField j "pre"
  let env := oracle.env st.mechs
  let w0 : World := { sim := pre }
  let modelRes : Option World ←
    match op with
    | "apply" => do
      let instrs : List Instr ← getField j "instrs"
      pure (some (applyInstructions env w0 instrs))
    | "update" => pure (some (vehicleUpdates env w0))
    | "tick" => pure (some { w0 with sim := w0.sim.tick })
    | "pre" => do
      -- request arrivals / cancellations done by the harness through the real state operations:
      -- the model replays them from the recorded event list
      let adds : List Request ← optField j "adds" []
      let cancels : List RequestId ← optField j "cancels" []
      let s1 := adds.foldl (fun s r => match s.addRequest env r with | .ok s' => s' | _ => s) w0.sim
      let s2 := cancels.foldl (fun s i => match s.removeRequest env i with | .ok s' => s' | _ => s) s1
      pure (some { sim := s2, log := adds.map (fun r => Event.addRequest r.id) ++ cancels.map Event.cancelRequest })
    | _ => throw s!"unknown phase {op}"
  let postJ := (j.getObjVal? "post").toOption.getD .null
  let evs : List Event ← optField j "events" []
  let cmpEvents : Bool ← optField j "cmp_events" true
  match modelRes, postJ with
  | none, .null => pure (st.ledger, Json.mkObj [("diff", strs []), ("mon", strs [])])
  | none, _ => pure (st.ledger, Json.mkObj [("diff", strs ["model: call raises; impl returned a state"]), ("mon", strs [])])
  | some _, .null => pure (st.ledger, Json.mkObj [("diff", strs ["impl: call raised; model returns a state"]), ("mon", strs [])])
  | some w, pj => do
    let post : Sim ← match fromJson? pj with
      | .ok a => pure a
      | .error e => throw s!"post: {e}"
    let d := diffSim w.sim post ++ (if cmpEvents then diffEvents w.log evs else [])
    let cap (i : MechId) : Option Rat := (mechOf st.mechs i).map (·.capacity)
    let isEl (i : MechId) : Bool := match mechOf st.mechs i with
      | some m => m.kind == .bev
      | none => true
    let single : List String ← match op with
      | "apply" => do
        let instrs : List Instr ← getField j "instrs"
        let probe : Bool ← optField j "probe" false
        pure (match probe, instrs with
          | true, [i] => violAtomic pre post i
          | _, _ => [])
      | _ => pure []
    let probe : Bool ← optField j "probe" false
    -- independence (C09): an instruction that is accepted alone on the same state, did not take
    -- effect in the phase, and had nothing take effect before it, was disturbed by another
    -- vehicle's rejected instruction
    let taken : List Bool ← optField j "taken" []
    let alone : List (Nat × Bool) ← optField j "alone" []
    let indep : List String := alone.flatMap fun (k, acc) =>
      if acc && !(taken.getD k false) && !((taken.take k).any id) then
        [s!"C09/independence| instruction {k} of the phase is accepted when it is applied alone to the same state; in the phase it did not take effect although no instruction before it did: a rejected instruction for another vehicle disturbed it"]
      else []
    let (ledger', lv) := if probe then (st.ledger, []) else st.ledger.phase pre post evs
    let crow : List (VehicleId × Rat) ← optField j "crow" []
    let order : List VehicleId ← optField j "order" []
    let orderMon := if op == "update" && !order.isEmpty then viol18Order pre order else []
    let orderDiff := if op == "update" && !order.isEmpty && order != (updateOrder pre.vehicles).map (·.id) then
      [s!"model: update order {(updateOrder pre.vehicles).map (·.id)}, impl: {order}"] else []
    let fifo := if op == "update" then viol18Step env pre post ++ viol04Move env.isEmpty pre post ++ viol18Observed env st.joined pre post ++
      viol06Displacement pre post crow ++ viol06Stuck env.isEmpty pre post else []
    let acct := (if probe then [] else viol19Step pre post evs) ++ (if op == "apply" then viol03Divert pre post else [])
    let mon := monitorAll env post ++ viol04 cap post ++ viol04Step pre post ++ viol04Plug isEl pre evs ++ viol05Step isEl pre post evs ++ single ++ indep ++ lv ++ fifo ++ acct ++ orderMon
    pure (ledger', Json.mkObj [("diff", strs (d ++ orderDiff)), ("mon", strs mon)])

/-- transition probe: `transition_previous_to_next(sim, env, vehicle's activity, next)` for an
    arbitrary proposed activity; outcome kind and (on success) the whole state are compared, all
    state monitors run on the implementation's result -/
def handleTransition (st : DState) (j : Json) : Except String Json := do
  let oracle : Oracle ← optField j "oracle" {}
  let pre : Sim ← getField j "pre"
  let v : VehicleId ← getField j "veh"
  let next : Act ← getField j "next"
  let outcome : String ← getField j "outcome"
  let env := oracle.env st.mechs
  match pre.vehicle? v with
  | none => pure (Json.mkObj [("diff", strs ["transition probe names a vehicle that is not in the state"]), ("mon", strs [])])
  | some veh =>
    let res := transition env { sim := pre } v veh.act next
    let kindOk := res.kind == outcome || (res.kind == "error" && outcome == "raise")
    let d0 := if kindOk then [] else
      [s!"transition {veh.act.kind} -> {next.kind} of vehicle {v}: outcome model={res.kind} impl={outcome}"]
    match res, (j.getObjVal? "post").toOption.getD .null with
    | .ok _, .null => pure (Json.mkObj [("diff", strs d0), ("mon", strs [])])
    | .ok w, pj => do
      let post : Sim ← match fromJson? pj with
        | .ok a => pure a
        | .error e => throw s!"post: {e}"
      let d := diffSim w.sim post
      let cap (i : MechId) : Option Rat := (mechOf st.mechs i).map (·.capacity)
      let mon := monitorAll env post ++ viol04 cap post
      pure (Json.mkObj [("diff", strs (d0 ++ d.map fun x => s!"transition {veh.act.kind} -> {next.kind}: {x}")), ("mon", strs mon)])
    | _, .null => pure (Json.mkObj [("diff", strs d0), ("mon", strs [])])
    | _, pj => do
      -- the implementation accepted what the model refuses: still judge the implementation's state
      let post : Sim ← match fromJson? pj with
        | .ok a => pure a
        | .error e => throw s!"post: {e}"
      let cap (i : MechId) : Option Rat := (mechOf st.mechs i).map (·.capacity)
      pure (Json.mkObj [("diff", strs d0), ("mon", strs (monitorAll env post ++ viol04 cap post))])

/-- function-level record: `traverse(route, dt)` -/
structure Moved where
  state : String
  pos : Pos
  km : Rat
  route : Route
  deriving FromJson

/-- what `vehicle_state_ops.move` must leave behind for a vehicle with energy that stood at the
    start of `route` with odometer 0: `(position, odometer, stored route)` - the expression of
    `Hive.move` for this case -/
def movedTo (route : Route) (tr : Traversal) : Option (Pos × Rat × Route) :=
  match route.head?, tr.experienced.getLast? with
  | some first, none => some (⟨first.id, first.start⟩, 0, [])
  | some _, some last => some (⟨last.id, last.stop⟩, tr.km, tr.remaining)
  | none, _ => none

def violMoved (route exp rem : Route) (km : Rat) (m : Moved) : List String :=
  match movedTo route { experienced := exp, remaining := rem, km := km } with
  | none => []
  | some (pos, odo, stored) =>
    (if m.pos.cell == pos.cell then [] else
      [s!"C06/junction| after the step the vehicle stands at cell {m.pos.cell}; the junction between the driven and the remaining part of its route is {pos.cell}"]) ++
    (if m.pos.link == pos.link then [] else
      [s!"C06/junction| after the step the vehicle is on link {m.pos.link}; the last link it drove on is {pos.link}"]) ++
    (if m.km == odo then [] else [s!"C06/odometer| the odometer advanced by {Val.show (.q m.km)} km, the distance covered is {Val.show (.q odo)} km"]) ++
    (if m.route == stored then [] else [s!"C06/route-kept| the route stored on the vehicle is not the remaining part of the traversal"])

def handleTraverse (j : Json) : Except String Json := do
  let oracle : Oracle ← optField j "oracle" {}
  let route : Route ← getField j "route"
  let dt : Nat ← getField j "dt"
  let kind : String ← getField j "kind"          -- "ok" | "error" | "none"
  let model := traverse oracle.geo route dt
  match model, kind with
  | .ok tr, "ok" => do
    let exp : Route ← getField j "experienced"
    let rem : Route ← getField j "remaining"
    let km : Rat ← getField j "km"
    let cellKm : Rat ← optField j "cellKm" (6 / 10000)
    let d := diffFlat (flatRoute "experienced" tr.experienced ++ flatRoute "remaining" tr.remaining ++ [("km", .q tr.km)])
                      (flatRoute "experienced" exp ++ flatRoute "remaining" rem ++ [("km", .q km)])
    let moved : Option Moved ← optField j "moved" none
    let (d2, m2) := match moved with
      | none => ([], [])
      | some m =>
        ((match movedTo route tr with
          | some (pos, odo, stored) =>
            (if m.pos == pos then [] else [s!"move: position model={repr pos} impl={repr m.pos}"]) ++
            (if ratAbs (m.km - odo) ≤ absTol odo then [] else [s!"move: odometer model={Val.show (.q odo)} impl={Val.show (.q m.km)}"]) ++
            (if diffFlat (flatRoute "stored" stored) (flatRoute "stored" m.route) == [] then [] else ["move: stored route differs"])
          | none => []), violMoved route exp rem km m)
    pure (Json.mkObj [("diff", strs (d ++ d2)), ("mon", strs (violTraversal route dt exp rem km cellKm ++ m2))])
  | .error, "error" => pure (Json.mkObj [("diff", strs []), ("mon", strs [])])
  | m, k => pure (Json.mkObj [("diff", strs [s!"outcome: model={m.kind} impl={k}"]), ("mon", strs [])])

/-- C11 function-level record: a run of pre-step phases over generated request / price files -/
def handleTimed (st : DState) (j : Json) : Except String Json := do
  let sim : Sim ← getField j "sim"
  let parentTbl : List (Cell × Cell) ← optField j "parent" []
  let timeout : Int ← getField j "timeout"
  let fleets : Bool ← getField j "fleets"
  let rows : List Timed.ReqRow ← getField j "rows"
  let prices : List Timed.PriceRow ← getField j "prices"
  let namesTbl : List (Nat × List StationId) ← getField j "names"
  let picks : List (List RequestId) ← getField j "picks"
  let obs : List Timed.StepObs ← getField j "obs"
  let env := ({ parent := parentTbl } : Oracle).env st.mechs
  let cfg : Timed.Cfg := { timeout := timeout, fleets := fleets }
  let names (k : Nat) : List StationId := match namesTbl.find? (fun p => p.1 == k) with
    | some p => p.2
    | none => []
  let model := Timed.run env cfg names (picks.take obs.length) { prices := .ofList prices, requests := .ofList rows } sim
  let mut diffs : List String := []
  let mut k := 0
  for (m, o) in model.zip obs do
    if m.time != o.time then diffs := diffs ++ [s!"step {k} time: model={m.time} impl={o.time}"]
    if m.adds != o.adds then diffs := diffs ++ [s!"step {k} admitted: model={m.adds} impl={o.adds}"]
    if m.cancels != o.cancels then diffs := diffs ++ [s!"step {k} cancelled: model={m.cancels} impl={o.cancels}"]
    if m.present != o.present then diffs := diffs ++ [s!"step {k} requests present: model={m.present} impl={o.present}"]
    if m.prices != o.prices then
      let bad := (m.prices.zip o.prices).filter fun (a, b) => a != b
      diffs := diffs ++ [s!"step {k} prices: {bad.length} differ, first: model={repr (bad.head?.map (·.1))} impl={repr (bad.head?.map (·.2))}"]
    k := k + 1
  let initial := (Timed.observe { sim := sim, log := [] }).prices
  let inOrder : Bool ← optField j "inOrder" true
  -- the closed form of C11 speaks about files sorted by departure time; the ledger statement of C03 does not care
  let mon := Timed.violClock sim.time sim.dt obs ++ (if inOrder then Timed.violRequests cfg sim.time sim.dt picks rows obs else []) ++
    Timed.violResolved picks obs ++ Timed.violPrices names sim.time sim.dt prices initial obs ++
    Timed.violPairs fleets sim.vehicles rows obs
  pure (Json.mkObj [("diff", strs (diffs.take 12)), ("mon", strs (mon.take 12))])

deriving instance FromJson for Shift.Entry
deriving instance FromJson for Shift.Obs

/-- C20 function-level record: a run of driver phases under a shift table -/
def handleShift (st : DState) (j : Json) : Except String Json := do
  let sim : Sim ← getField j "sim"
  let parentTbl : List (Cell × Cell) ← optField j "parent" []
  let tbl : List Shift.Entry ← getField j "tbl"
  let drivers : List (VehicleId × Nat × Bool) ← getField j "drivers"
  let obs : List Shift.Obs ← getField j "obs"
  let dispatched : List (Int × VehicleId × Bool) ← optField j "dispatched" []
  let env := ({ parent := parentTbl } : Oracle).env st.mechs
  let mut s := sim
  let mut diffs : List String := []
  let mut k := 0
  for o in obs do
    let w := Shift.driverUpdates env tbl { sim := s, log := [] }
    let avail : List (VehicleId × Bool) :=
      (sortBy (fun (a b : Vehicle) => decide (a.id ≤ b.id)) w.sim.vehicles).filterMap fun v =>
        match v.driver with
        | .human a _ _ _ => some (v.id, a)
        | .autonomous => none
    let events : List (VehicleId × Bool) := w.log.filterMap fun
      | .shift v b => some (v, b)
      | _ => none
    if w.sim.time != o.time then diffs := diffs ++ [s!"step {k} time: model={w.sim.time} impl={o.time}"]
    if avail != o.avail then diffs := diffs ++ [s!"step {k} (time {o.time}) availability: model={avail} impl={o.avail}"]
    if events != o.events then diffs := diffs ++ [s!"step {k} (time {o.time}) shift events: model={events} impl={o.events}"]
    s := w.sim.tick
    k := k + 1
  let mon := Shift.violShift tbl drivers obs ++ dispatched.filterMap fun (t, v, a) =>
    if a then none else some s!"C20/dispatch-off-shift| at time {t} the dispatcher assigned a request to vehicle {v} whose driver is off shift"
  pure (Json.mkObj [("diff", strs (diffs.take 12)), ("mon", strs (mon.take 12))])

/-- C15 whole-run record: clocks after co-simulation calls, steps taken by the runner -/
def handleCosim (j : Json) : Except String Json := do
  let start : Int ← getField j "start"
  let stop : Int ← getField j "stop"
  let dt : Nat ← getField j "dt"
  let clock : List (Nat × Int) ← getField j "clock"
  let single : Int ← getField j "singleSteps"
  let final : Int ← getField j "runnerFinal"
  let m := Cycle.runnerSteps start stop dt
  let mon : List String :=
    (clock.filterMap fun (k, t) =>
      if t == start + (k : Int) * (dt : Int) then none
      else some s!"C15/clock| after {k} steps the clock shows {t}, expected {start + (k : Int) * (dt : Int)}") ++
    (if single < 0 || single == (m : Int) then [] else
      [s!"C15/runner-steps| repeated LocalSimulationRunner.step advanced {single} steps before refusing; the steps beginning before the end time are {m}"]) ++
    (if final < 0 || final == start + (m : Int) * (dt : Int) then [] else
      [s!"C15/runner-interval| LocalSimulationRunner.run ended at {final}; {m} steps from {start} end at {start + (m : Int) * (dt : Int)}"])
  pure (Json.mkObj [("diff", strs []), ("mon", strs mon)])

deriving instance FromJson for Dispatch.DCfg

structure DispatchCall where
  fleet : Option FleetId
  implV : List Nat
  implR : List Nat
  pairs : List (Nat × Nat)
  potV : List (Nat × Int)
  potR : List (Nat × Int)
  optCost : Int
  deriving FromJson

/-- C12 function-level record: one run of the trip dispatcher, every assignment problem observed -/
def handleDispatch (j : Json) : Except String Json := do
  let sim : Sim ← getField j "sim"
  let cfg : Dispatch.DCfg ← getField j "cfg"
  let ranges : List (VehicleId × Option Rat) ← getField j "ranges"
  let calls : List DispatchCall ← getField j "calls"
  let costTbl : List (Nat × Nat × Int) ← getField j "cost"
  let kmPerUnit : List (VehicleId × Rat) ← optField j "kmPerUnit" []
  -- the remaining range from the model (level × nominal distance per unit); the implementation's own
  -- answer is compared with it, and is used only where the harness could not read the nominal value
  let range (v : VehicleId) : Option Rat :=
    match sim.vehicle? v, kmPerUnit.find? (·.1 == v) with
    | some veh, some k => some (Dispatch.rangeKm veh.en.level k.2)
    | _, _ => (ranges.find? (·.1 == v)).bind (·.2)
  let costFn (v r : Nat) : Int := match costTbl.find? (fun t => t.1 == v && t.2.1 == r) with
    | some t => t.2.2
    | none => 0
  let srt (l : List Nat) : List Nat := sortBy (fun a b => decide (a ≤ b)) l
  let mut diffs : List String := []
  let mut mon : List String := []
  let mut usedV : List VehicleId := []
  let mut usedR : List RequestId := []
  for (v, r) in ranges do
    match r, range v with
    | some impl, some m =>
      if !(ratAbs (impl - m) ≤ absTol m) then
        mon := mon ++ [s!"C12/range| vehicle {v} reports {Val.show (.q impl)} km of remaining range (the eligibility test uses it); its energy level and nominal consumption give {Val.show (.q m)} km"]
    | _, _ => pure ()
  for c in calls do
    let V := Dispatch.vehiclesOf cfg range usedV c.fleet sim
    let R := Dispatch.requestsOf usedR c.fleet sim
    if srt V != c.implV then
      diffs := diffs ++ [s!"fleet {repr c.fleet}: vehicles offered to the assignment: model={srt V} impl={c.implV}"]
    if srt R != c.implR then
      diffs := diffs ++ [s!"fleet {repr c.fleet}: requests offered to the assignment: model={srt R} impl={c.implR}"]
    let a : Dispatch.Answer := { fleet := c.fleet, pairs := c.pairs, potV := c.potV, potR := c.potR }
    if !(Dispatch.checkFleet cfg range costFn sim usedV usedR a) then
      let okShape := if V.length ≤ R.length then Dispatch.completeOk V R c.pairs else Dispatch.completeOk R V (Dispatch.swap c.pairs)
      let total := (c.pairs.map fun p => costFn p.1 p.2).sum
      if !okShape then
        mon := mon ++ [s!"C12/pairing| fleet {repr c.fleet}: {c.pairs} is not a one-to-one pairing of min(#vehicles, #requests) = {min V.length R.length} eligible vehicles {srt V} with waiting requests {srt R}"]
      else
        mon := mon ++ [s!"C12/not-minimal| fleet {repr c.fleet}: pairing {c.pairs} has total grid distance {total}; the minimum over pairings of that size is {c.optCost} (no dual certificate for the implementation's answer)"]
    for p in c.pairs do
      match sim.vehicle? p.1, sim.request? p.2 with
      | some veh, some req =>
        if !veh.driver.available then
          mon := mon ++ [s!"C20/dispatch-off-shift| the dispatcher assigned request {p.2} to vehicle {p.1} whose driver is off shift"]
        if !req.members.isEmpty && !(req.members.any fun f => veh.members.contains f) then
          if veh.members.isEmpty then
            mon := mon ++ [s!"C10/dispatcher-public-vehicle| the dispatcher paired vehicle {p.1}, which belongs to no fleet, with request {p.2} of fleets {req.members}"]
          else
            mon := mon ++ [s!"C10/dispatcher-other-fleet| the dispatcher paired vehicle {p.1} (fleets {veh.members}) with request {p.2} of fleets {req.members}"]
        if req.dispVeh.isSome then
          mon := mon ++ [s!"C17/dispatcher-reassigns| the dispatcher paired vehicle {p.1} with request {p.2}, which already has vehicle {repr req.dispVeh} on its way"]
      | _, _ => mon := mon ++ [s!"C12/pairing| pair {p} names a vehicle or request that does not exist"]
    usedV := usedV ++ c.pairs.map (·.1)
    usedR := usedR ++ c.pairs.map (·.2)
  -- the charging fleet manager's pairs (vehicle, station | base): the entity it names for a vehicle must be
  -- open to that vehicle (the membership rule of C10, `Members.grants`)
  let cfmPairs : List (Nat × Nat × Nat) ← optField j "cfmPairs" []
  for (kind, v, t) in cfmPairs do
    match sim.vehicle? v with
    | some veh =>
      if kind == 0 then
        match sim.station? t with
        | some st =>
          if !st.members.grants veh.members then
            mon := mon ++ [s!"C10/fleet-manager-other-fleet| the charging fleet manager sends vehicle {v} (fleets {veh.members}) to station {t} of fleets {st.members}, which is not open to it"]
        | none => pure ()
      else
        match sim.base? t with
        | some b =>
          if !b.members.grants veh.members then
            mon := mon ++ [s!"C10/fleet-manager-other-fleet| the charging fleet manager sends vehicle {v} (fleets {veh.members}) to base {t} of fleets {b.members}, which is not open to it"]
        | none => pure ()
    | none => pure ()
  let allReqs := calls.flatMap fun c => c.pairs.map (·.2)
  if allReqs.eraseDups.length != allReqs.length then
    mon := mon ++ [s!"C17/dispatcher-two-vehicles| one dispatcher run assigned two vehicles to one request: {calls.flatMap (·.pairs)}"]
  let allVehs := calls.flatMap fun c => c.pairs.map (·.1)
  if allVehs.eraseDups.length != allVehs.length then
    mon := mon ++ [s!"C12/vehicle-twice| one dispatcher run paired one vehicle with two requests: {calls.flatMap (·.pairs)}"]
  pure (Json.mkObj [("diff", strs (diffs.take 12)), ("mon", strs (mon.take 12))])

deriving instance FromJson for Router.NLink

structure RouterQuery where
  kind : String
  o : Pos
  d : Pos
  route : Route
  nodePath : List Nat
  routePath : List Nat := []
  pot : List (Nat × Rat)
  slack : Rat
  searched : Bool
  deriving FromJson

structure SnapObs where
  cell : Cell
  ok : Bool
  link : Option LinkId
  deriving FromJson

structure HavQuery where
  o : Pos
  d : Pos
  route : Route
  deriving FromJson

/-- C13 / C14 function-level record: one street network, its routes and junction paths -/
def handleRouter (j : Json) : Except String Json := do
  let net : Router.Net ← getField j "net"
  let queries : List RouterQuery ← getField j "queries"
  let snaps : List SnapObs ← getField j "snaps"
  let hqs : List HavQuery ← getField j "hqueries"
  -- graphs that bring their own edge travel times (an osmnx export): the link table's length/speed
  -- legitimately says something else, "fastest" is judged by the graph the search runs on
  let ownTimes : Bool ← optField j "own_times" false
  let mut diffs : List String := []
  let mut mon : List String := []
  for qy in queries do
    let model := Router.osmRoute net (fun _ _ => qy.nodePath) qy.o qy.d
    if model != qy.route then
      diffs := diffs ++ [s!"{qy.kind} query {repr qy.o} -> {repr qy.d}: route model={repr model} impl={repr qy.route} (junction path {qy.nodePath})"]
    if !(Router.validRoute net qy.o qy.d qy.route) then
      mon := mon ++ [s!"C13/route-shape| {qy.kind} query {repr qy.o} -> {repr qy.d}: the route {repr qy.route} is not a connected path of network links from the origin position to the destination position"]
    if qy.searched then
      match net.byId qy.o.link, net.byId qy.d.link with
      | some src, some dst =>
        let pot (n : Nat) : Rat := match qy.pot.find? (·.1 == n) with
          | some p => p.2
          | none => 1000000000000
        if !(Router.certPath net pot src.v dst.u qy.nodePath qy.slack) then
          let t := Router.walkTime net qy.nodePath
          mon := mon ++ [s!"C14/not-fastest| {qy.kind} query: the junction path {qy.nodePath} from {src.v} to {dst.u} takes {repr t} s, the fastest walk takes {repr (pot dst.u)} s"]
        -- the junction path of the route that was actually returned (it is what vehicles drive)
        if !qy.routePath.isEmpty && qy.routePath != qy.nodePath then
          if !(Router.certPath net pot src.v dst.u qy.routePath qy.slack) then
            let t := Router.walkTime net qy.routePath
            mon := mon ++ [s!"C14/not-fastest| {qy.kind} query: the returned route runs over the junctions {qy.routePath} ({repr t} s), not over the path the search returned ({qy.nodePath}); the fastest walk from {src.v} to {dst.u} takes {repr (pot dst.u)} s"]
      | _, _ => mon := mon ++ [s!"C13/route-shape| query names a link that is not in the network"]
  -- the link table vehicles are moved with must say what the searched graph says: a link's length
  -- and speed give the travel time of the edge it was built from (else "fastest" by the graph is
  -- not fastest for the vehicles)
  for l in net do
    if l.link.speed > 0 && !ownTimes then
      let t := l.link.dist / l.link.speed * 3600
      if !(ratAbs (t - l.time) ≤ absTol l.time) then
        mon := mon ++ [s!"C14/link-table| link {l.u}-{l.v}: its length and speed in the link table give {Val.show (.q t)} s, the graph edge the search uses takes {Val.show (.q l.time)} s"]
  for sn in snaps do
    if !sn.ok then
      mon := mon ++ [s!"C13/snap| position_from_geoid of cell {sn.cell} names link {repr sn.link} but the cell it returns is not on that link"]
  for hq in hqs do
    let ok : Bool := match hq.route with
      | [] => hq.o == hq.d
      | [l] => hq.o != hq.d && l.start == hq.o.cell && l.stop == hq.d.cell
      | _ => false
    if !ok then
      mon := mon ++ [s!"C13/route-shape| straight-line network {repr hq.o} -> {repr hq.d}: route {repr hq.route}"]
  pure (Json.mkObj [("diff", strs (diffs.take 8)), ("mon", strs (mon.take 12))])

deriving instance FromJson for EventLedger.VehTotals
deriving instance FromJson for EventLedger.EvRun

/-- C19 whole-run record: the parsed event log, final totals and summary of one run -/
def handleEvents (j : Json) : Except String Json := do
  let r : EventLedger.EvRun ← fromJson? j
  pure (Json.mkObj [("diff", strs []), ("mon", strs ((EventLedger.violEvents r).take 12))])

structure RateOp where
  kind : String          -- "set" | "scale"
  value : Rat
  accepted : Bool
  rate : Rat             -- the plug's rate afterwards
  deriving FromJson

/-- `ChargerState.set_charge_rate` / `scale_charge_rate`: a request outside `[0, current rate]`
    (resp. a factor outside `[0, 1]`) is refused and leaves the rate as it was -/
def rateStep (cur : Rat) (o : RateOp) : Option Rat :=
  if o.kind == "set" then (if o.value < 0 || cur < o.value then none else some o.value)
  else (if o.value < 0 || 1 < o.value then none else some (cur * o.value))

/-- function-level record: a sequence of rate changes on one plug -/
def handleRate (j : Json) : Except String Json := do
  let factory : Rat ← getField j "factory"
  let ops : List RateOp ← getField j "ops"
  let mut cur := factory
  let mut diffs : List String := []
  let mut mon : List String := []
  let mut k := 0
  for o in ops do
    let m := rateStep cur o
    let want := m.getD cur
    if m.isSome != o.accepted then
      diffs := diffs ++ [s!"op {k} {o.kind}({Val.show (.q o.value)}) on rate {Val.show (.q cur)}: model accepts={m.isSome} impl accepts={o.accepted}"]
    else if !(ratAbs (want - o.rate) ≤ absTol want) then
      diffs := diffs ++ [s!"op {k} {o.kind}({Val.show (.q o.value)}): rate afterwards model={Val.show (.q want)} impl={Val.show (.q o.rate)}"]
    if o.rate < 0 then
      mon := mon ++ [s!"C04/negative-rate| {o.kind}({Val.show (.q o.value)}) left the plug with the negative charge rate {Val.show (.q o.rate)}: charging there lowers the level"]
    if factory < o.rate then
      mon := mon ++ [s!"C04/rate-above-factory| {o.kind}({Val.show (.q o.value)}) left the plug with rate {Val.show (.q o.rate)} above its factory rate {Val.show (.q factory)}"]
    cur := o.rate
    k := k + 1
  pure (Json.mkObj [("diff", strs diffs), ("mon", strs mon)])

/-- function-level record: one mechatronics operation -/
def handleMech (j : Json) : Except String Json := do
  let m : Mech ← getField j "mech"
  let fn : String ← getField j "fn"
  let pre : Energy ← getField j "pre"
  let post : Energy ← getField j "post"
  let dt : Nat ← optField j "dt" 0
  let route : Route ← optField j "route" []
  let electric : Bool ← optField j "electric" true
  let rate : Rat ← optField j "rate" 0
  let model : Energy := match fn with
    | "consume" => m.consume pre route
    | "idle" => m.idle pre dt
    | _ => m.addEnergy pre electric rate dt
  let fl (e : Energy) : Flat := [("level", .q e.level), ("gained", .q e.gained), ("expended", .q e.expended)]
  let d := diffFlat (fl model) (fl post)
  let tol := absTol (max (ratAbs post.level) (max (ratAbs post.gained) (ratAbs post.expended)))
  let lcOf (e : Energy) : Rat := e.level - e.gained + e.expended
  let mon : List String :=
    (if 0 ≤ post.level + tol && post.level ≤ m.capacity + tol then [] else [s!"C04/bounds| level {Val.show (.q post.level)} outside [0, capacity]"]) ++
    (if ratAbs (lcOf post - lcOf pre) ≤ tol then [] else ["C04/ledger| level − gained + expended changed"]) ++
    (if post.gained + tol < pre.gained || post.expended + tol < pre.expended then ["C04/totals-decrease| a running total decreased"] else []) ++
    (match fn with
     | "consume" =>
       if route.any (fun l => l.dist > 0) && pre.level > 0 && !(post.expended > pre.expended) then
         ["C04/no-expenditure| driving a positive distance expended nothing"] else []
     | "idle" =>
       if dt > 0 && pre.level > 0 && !(post.expended > pre.expended) then ["C04/no-expenditure| idling a positive time expended nothing"] else []
     | _ =>
       let bound : Rat := match m.kind with | .bev => rate * dt * (1 / 3600) | .ice => rate * dt
       (if post.level + tol < pre.level then ["C04/charge-lowered| charging lowered the level"] else []) ++
       (if post.level - pre.level > bound + absTol bound then [s!"C04/charge-exceeds-plug| charging added {Val.show (.q (post.level - pre.level))}, the plug delivers at most {Val.show (.q bound)} in this step"] else []))
  pure (Json.mkObj [("diff", strs d), ("mon", strs mon)])

deriving instance FromJson for Lookup.AtObs
deriving instance FromJson for Lookup.SearchObs
deriving instance FromJson for Lookup.NearObs
deriving instance FromJson for Lookup.Obs

structure CollSnap where
  ents : List (Nat × Cell)
  loc : CollDict
  search : CollDict
  lookups : Option Lookup.Obs := none
  deriving FromJson

structure CollStep where
  op : String
  id : Nat
  cell : Option Cell := none
  tag : Option Nat := none
  outcome : String
  after : CollSnap
  deriving FromJson

def flatCollSnap (ents : List (Nat × Cell)) (ix : Index) : Flat :=
  ((sortBy (fun a b => a.1 ≤ b.1) ents).map fun (i, c) => (s!"ent[{i}]", Val.s (toString c))) ++
  [("nents", .s (toString ents.length))] ++ flatIndex "idx" ix

/-- function-level record: an operation sequence on one indexed collection -/
def handleColl (j : Json) : Except String Json := do
  let parentTbl : List (Cell × Cell) ← optField j "parent" []
  let fixed : Bool ← optField j "fixed" false
  let steps : List CollStep ← getField j "steps"
  let parent (c : Cell) : Cell := match parentTbl.find? (fun p => p.1 == c) with
    | some p => p.2
    | none => 999999999
  let mut c : Coll := Coll.empty
  let mut prevEnts : List (Nat × Cell) := []
  let mut diffs : List String := []
  let mut mons : List String := []
  let mut k := 0
  for st in steps do
    let e : Ent := ⟨st.id, st.cell.getD 0, st.tag.getD 0⟩
    let res : Outcome Coll := match st.op with
      | "add" => Coll.add parent c e
      | "modify" => if fixed then Coll.modifyFixed c e else Coll.modify parent c e
      | _ => Coll.remove parent c st.id
    let kind := res.kind
    if kind != st.outcome && !(kind == "error" && st.outcome == "raise") then
      diffs := diffs ++ [s!"step {k} {st.op} {st.id}: outcome model={kind} impl={st.outcome}"]
    match res with
    | .ok c' => c := c'
    | _ => pure ()
    let implIx : Index := ⟨st.after.loc, st.after.search⟩
    let d := diffFlat (flatCollSnap (c.ents.map fun e => (e.id, e.cell)) c.ix) (flatCollSnap st.after.ents implIx)
    if !d.isEmpty then
      diffs := diffs ++ (d.take 4).map (fun x => s!"step {k} {st.op} {st.id}: {x}")
      -- resynchronise on the implementation's state
      c := { ents := st.after.ents.map (fun (i, cl) => ⟨i, cl, 0⟩), ix := implIx }
    if !(implIx.ok parent st.after.ents) then
      mons := mons ++ [s!"C08/index-after-{st.op}| step {k} {st.op} {st.id}: the implementation's index maps disagree with its entities"]
    -- stations and bases never change location: a modification may not move one
    if fixed && st.op == "modify" then
      match prevEnts.find? (·.1 == st.id), st.after.ents.find? (·.1 == st.id) with
      | some a, some b =>
        if a.2 != b.2 then
          mons := mons ++ [s!"C08/fixed-entity-moved| step {k}: a modification moved entity {st.id} of a kind that never changes location from cell {a.2} to cell {b.2}"]
      | _, _ => pure ()
    prevEnts := st.after.ents
    match st.after.lookups with
    | some lk =>
      -- the read side: the model's lookups on the model's state, and the statement on the observed answers
      let ents := sortBy (fun a b => decide (a.1 ≤ b.1)) (c.ents.map fun e => (e.id, e.cell))
      diffs := diffs ++ ((Lookup.diff c.ix ents lk).take 3).map (fun x => s!"step {k} {st.op} {st.id}: {x}")
      mons := mons ++ ((Lookup.viol parent st.after.ents lk).take 3).map (fun x => s!"{x} (after step {k} {st.op} {st.id})")
    | none => pure ()
    k := k + 1
  pure (Json.mkObj [("diff", strs diffs), ("mon", strs mons)])

deriving instance FromJson for Layout.StationRow
deriving instance FromJson for Layout.BaseRow

/-- the initial layout: the stations and bases files loaded by the real initialisation, next to the
    model of the loaders; every state invariant evaluated on the loaded state -/
def handleLayout (st : DState) (j : Json) : Except String Json := do
  let simO : Option Sim ← optField j "sim" none
  let parentTbl : List (Cell × Cell) ← optField j "parent" []
  let rows : List Layout.StationRow ← getField j "rows"
  let bases : List Layout.BaseRow ← getField j "bases"
  let catTbl : List (ChargerId × Bool × Rat) ← getField j "catalogue"
  let env := ({ parent := parentTbl } : Oracle).env st.mechs
  let cat (c : ChargerId) : Option (Bool × Rat) := (catTbl.find? (fun p => p.1 == c)).map (·.2)
  let flat (sts : List Station) : List String :=
    (sortBy (fun (a b : Station) => decide (a.id ≤ b.id)) sts).map fun x =>
      let plugs := (sortBy (fun (a b : ChargerState) => decide (a.id ≤ b.id)) x.plugs).map fun c =>
        s!"{c.id}:{c.electric}:{c.rate}:{c.total}:{c.avail}:{c.price}:{c.enq}"
      s!"station {x.id} cell {x.pos.cell} plugs {plugs} onShift {sortBy (fun a b => decide (a ≤ b)) x.onShift}"
  match Layout.loadStations cat rows [], simO with
  | none, none => pure (Json.mkObj [("diff", strs []), ("mon", strs [])])
  | none, some _ => pure (Json.mkObj [("diff", strs ["model: the load stops at a plug type the catalogue lacks; impl loaded a state"]), ("mon", strs [])])
  | some _, none => pure (Json.mkObj [("diff", strs ["impl: the load raised; the model loads the stations"]), ("mon", strs [])])
  | some ms, some sim =>
    let a := flat ms
    let b := flat sim.stations
    let d := if a == b then [] else
      ((a.zip b).filter (fun p => p.1 != p.2)).map (fun p => s!"model={p.1} impl={p.2}") ++
      (if a.length != b.length then [s!"stations: model={a.length} impl={b.length}"] else [])
    let mon := monitorAll env sim ++ Layout.viol rows bases sim
    pure (Json.mkObj [("diff", strs (d.take 6)), ("mon", strs (mon.take 10))])

def handle (st : DState) (line : String) : DState × Json :=
  match Json.parse line with
  | .error e => (st, Json.mkObj [("error", Json.str s!"parse: {e}")])
  | .ok j =>
    let idJ := (j.getObjVal? "id").toOption.getD .null
    let op := ((j.getObjVal? "op").toOption.bind (·.getStr?.toOption)).getD ""
    let withId (r : Json) : Json := r.setObjVal! "id" idJ
    match op with
    | "cfg" =>
      match (getField j "mechs" : Except String (List Mech)) with
      | .ok ms => ({ mechs := ms, ledger := {}, joined := [] }, withId (Json.mkObj [("ok", true)]))
      | .error e => (st, withId (Json.mkObj [("error", Json.str e)]))
    | "transition" =>
      match handleTransition st j with
      | .ok r => (st, withId r)
      | .error e => (st, withId (Json.mkObj [("error", Json.str e)]))
    | "apply" | "update" | "tick" | "pre" =>
      match handlePhase st op j with
      | .ok (l, r) =>
        -- observed queue membership follows the implementation's states of the history (not the probes)
        let isProbe : Bool := (optField j "probe" false : Except String Bool).toOption.getD false
        let joined' : Joined := if isProbe then st.joined else
          match (getField j "post" : Except String Sim) with
          | .ok post => st.joined.update post
          | .error _ => st.joined
        ({ st with ledger := l, joined := joined' }, withId r)
      | .error e => (st, withId (Json.mkObj [("error", Json.str e)]))
    | "timed" =>
      match handleTimed st j with
      | .ok r => (st, withId r)
      | .error e => (st, withId (Json.mkObj [("error", Json.str e)]))
    | "shift" =>
      match handleShift st j with
      | .ok r => (st, withId r)
      | .error e => (st, withId (Json.mkObj [("error", Json.str e)]))
    | "cosim" =>
      match handleCosim j with
      | .ok r => (st, withId r)
      | .error e => (st, withId (Json.mkObj [("error", Json.str e)]))
    | "dispatch" =>
      match handleDispatch j with
      | .ok r => (st, withId r)
      | .error e => (st, withId (Json.mkObj [("error", Json.str e)]))
    | "router" =>
      match handleRouter j with
      | .ok r => (st, withId r)
      | .error e => (st, withId (Json.mkObj [("error", Json.str e)]))
    | "events" =>
      match handleEvents j with
      | .ok r => (st, withId r)
      | .error e => (st, withId (Json.mkObj [("error", Json.str e)]))
    | "rate" =>
      match handleRate j with
      | .ok r => (st, withId r)
      | .error e => (st, withId (Json.mkObj [("error", Json.str e)]))
    | "mech" =>
      match handleMech j with
      | .ok r => (st, withId r)
      | .error e => (st, withId (Json.mkObj [("error", Json.str e)]))
    | "stack" =>
      match (do
        let gens : List (List Instr) ← getField j "gens"
        let drivers : List Instr ← getField j "drivers"
        let final : List Instr ← getField j "final"
        let m := finalInstructions gens drivers
        let d := if m == final then [] else [s!"final instructions: model={reprStr m} impl={reprStr final}"]
        let vs := final.map Instr.vehicle
        let overruled := drivers.filter fun d => !(final.any fun f => f == d)
        let mon := (if vs.eraseDups.length == vs.length then [] else ["C09/two-per-vehicle| two instructions for one vehicle reach apply_instructions"]) ++
          overruled.map fun d => s!"C09/driver-overruled| the driver of vehicle {d.vehicle} issued {reprStr d} but another instruction reaches apply_instructions for that vehicle"
        pure (Json.mkObj [("diff", strs d), ("mon", strs mon)]) : Except String Json) with
      | .ok r => (st, withId r)
      | .error e => (st, withId (Json.mkObj [("error", Json.str e)]))
    | "layout" =>
      match handleLayout st j with
      | .ok r => (st, withId r)
      | .error e => (st, withId (Json.mkObj [("error", Json.str e)]))
    | "coll" =>
      match handleColl j with
      | .ok r => (st, withId r)
      | .error e => (st, withId (Json.mkObj [("error", Json.str e)]))
    | "traverse" =>
      match handleTraverse j with
      | .ok r => (st, withId r)
      | .error e => (st, withId (Json.mkObj [("error", Json.str e)]))
    | "monitor" =>
      match (do
        let oracle : Oracle ← optField j "oracle" {}
        let s : Sim ← getField j "sim"
        pure (monitorAll (oracle.env st.mechs) s) : Except String (List String)) with
      | .ok m => (st, withId (Json.mkObj [("mon", strs m)]))
      | .error e => (st, withId (Json.mkObj [("error", Json.str e)]))
    | _ => (st, withId (Json.mkObj [("error", Json.str s!"unknown op {op}")]))

partial def loop (h : IO.FS.Stream) (out : IO.FS.Stream) (st : DState) : IO Unit := do
  let line ← h.getLine
  if line.isEmpty then return ()
  if line.trimAscii.isEmpty then loop h out st else
  let (st', r) := handle st line
  out.putStrLn r.compress
  loop h out st'

def main : IO Unit := do
  let stdin ← IO.getStdin
  let stdout ← IO.getStdout
  loop stdin stdout {}
  stdout.flush
