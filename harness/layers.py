"""Correspondence layers shared by several properties. Each layer returns a JSON-able summary:
disagreements (model vs implementation), monitor failures on implementation states, statistics
of what was explored. Results are cached per (sources, parameters) by framework.cached."""
from __future__ import annotations

import json
import logging
import os
import random
import time
from concurrent.futures import ProcessPoolExecutor
from typing import Any, Dict, List, Tuple

from . import framework as fw

N_WORKERS = min(16, os.cpu_count() or 4)


def _act_kind(a) -> str:
    if isinstance(a, str):
        return a
    return next(iter(a.keys()))


def _instr_kind(i) -> str:
    return next(iter(i.keys()))


def _triples(rec) -> List[Tuple[str, str, str]]:
    """distinct (previous activity, operation, resulting activity) triples of one record"""
    out = []
    if rec.get("op") == "transition" and "pre" in rec:
        pre = {v["id"]: v for v in rec["pre"]["vehicles"]}
        if rec["veh"] in pre:
            out.append((_act_kind(pre[rec["veh"]]["act"]), "transition:" + _act_kind(rec["next"]), rec["outcome"]))
        return out
    if rec.get("post") is None or "pre" not in rec:
        return out
    pre = {v["id"]: v for v in rec["pre"]["vehicles"]}
    post = {v["id"]: v for v in rec["post"]["vehicles"]}
    if rec["op"] == "apply":
        tagk = "probe:" if rec.get("probe") else ""
        for i in rec["instrs"]:
            k = _instr_kind(i)
            vid = i[k]["v"]
            if vid in pre and vid in post:
                out.append((_act_kind(pre[vid]["act"]), tagk + k, _act_kind(post[vid]["act"])))
    elif rec["op"] == "update":
        for vid, v in pre.items():
            if vid in post:
                out.append((_act_kind(v["act"]), "update", _act_kind(post[vid]["act"])))
    return out


def _hist_batch(args) -> Dict[str, Any]:
    logging.disable(logging.CRITICAL)
    from .hist import run_history
    from .lean import run_driver
    from .world import World

    seeds, steps, opts = args
    recs: List[Dict[str, Any]] = []
    t0 = time.time()
    for s in seeds:
        rng = random.Random(s)
        w = World(rng, **opts.get("world", {}))
        recs += run_history(w, rng, steps, tag=f"h{s}", **opts.get("hist", {}))
    t_py = time.time() - t0
    t0 = time.time()
    outs = run_driver(recs)
    t_lean = time.time() - t0
    assert len(outs) == len(recs), (len(outs), len(recs))
    findings = []
    triples = set()
    skipped = 0
    sample = None
    for r, o in zip(recs, outs):
        if r["op"] == "cfg":
            if r.get("retained_changed"):
                findings.append({"id": r["id"], "kind": "diff", "record": None,
                                 "text": [f"a retained SimulationState changed after later phases (obtained at {x}): the recorded pre-states cannot be trusted" for x in r["retained_changed"][:3]]})
            for x in r.get("impl_raised") or []:
                findings.append({"id": x["id"], "kind": "diff", "record": {"op": "impl-raised", **x},
                                 "text": [f"impl: raised {x['exc']} in step {x['id']} ({'; '.join(x['where'][-2:])}): the model completes every phase"]})
            continue
        for t in _triples(r):
            triples.add(t)
        if r.get("skip"):
            skipped += 1
            continue
        if "error" in o:
            findings.append({"id": r["id"], "kind": "driver-error", "text": [o["error"][:400]], "record": r})
            continue
        if o.get("diff"):
            findings.append({"id": r["id"], "kind": "diff", "text": o["diff"][:12], "record": r})
        if o.get("mon"):
            findings.append({"id": r["id"], "kind": "mon", "text": o["mon"][:12], "record": r})
        if sample is None and r["op"] == "apply" and r["instrs"]:
            sample = {"id": r["id"], "instrs": r["instrs"], "vehicles_pre": [(v["id"], _act_kind(v["act"])) for v in r["pre"]["vehicles"]],
                      "vehicles_post": None if r["post"] is None else [(v["id"], _act_kind(v["act"])) for v in r["post"]["vehicles"]]}
    # keep the payload small: full records only for the first few findings
    for f in findings[8:]:
        f.pop("record", None)
    return {
        "records": sum(1 for r in recs if r["op"] != "cfg"),
        "findings": fw.pick(findings, 40),
        "n_findings": len(findings),
        "triples": sorted(triples),
        "skipped": skipped,
        "sample": sample,
        "t_py": t_py,
        "t_lean": t_lean,
    }


HIST_BATCH = 24      # histories per driver run inside one worker: bounds the memory a worker holds


def _hist_worker(args) -> Dict[str, Any]:
    """a worker's share of the histories, in batches (each batch: generate, run the Lean driver, keep the findings)"""
    seeds, steps, opts = args
    parts = [_hist_batch((seeds[i:i + HIST_BATCH], steps, opts)) for i in range(0, len(seeds), HIST_BATCH)]
    if len(parts) == 1:
        return parts[0]
    triples = set()
    findings: List[Dict[str, Any]] = []
    for p in parts:
        triples.update(tuple(t) for t in p["triples"])
        findings += p["findings"]
    return {
        "records": sum(p["records"] for p in parts),
        "findings": fw.pick(findings, 40),
        "n_findings": sum(p["n_findings"] for p in parts),
        "triples": sorted(triples),
        "skipped": sum(p["skipped"] for p in parts),
        "sample": next((p["sample"] for p in parts if p["sample"]), None),
        "t_py": sum(p["t_py"] for p in parts),
        "t_lean": sum(p["t_lean"] for p in parts),
    }


def hist_layer(seed: int, n_hist: int, steps: int, opts: Dict[str, Any] | None = None) -> Dict[str, Any]:
    """random histories under the adversarial controller, all monitors, full-state comparison"""
    opts = opts or {}

    def compute() -> Dict[str, Any]:
        base = seed * 1000003
        seeds = [base + i for i in range(n_hist)]
        chunks = [seeds[i::N_WORKERS] for i in range(N_WORKERS)]
        chunks = [c for c in chunks if c]
        t0 = time.time()
        with ProcessPoolExecutor(max_workers=len(chunks)) as ex:
            parts = list(ex.map(_hist_worker, [(c, steps, opts) for c in chunks]))
        triples = set()
        findings = []
        for p in parts:
            triples.update(tuple(t) for t in p["triples"])
            findings += p["findings"]
        return {
            "histories": n_hist,
            "steps": steps,
            "records": sum(p["records"] for p in parts),
            "skipped_near_boundary": sum(p["skipped"] for p in parts),
            "n_findings": sum(p["n_findings"] for p in parts),
            "findings": fw.pick(findings, 60),
            "triples": sorted(triples),
            "sample": next((p["sample"] for p in parts if p["sample"]), None),
            "wall_s": round(time.time() - t0, 2),
            "opts": opts,
        }

    return fw.cached("hist", {"seed": seed, "n": n_hist, "steps": steps, "opts": opts}, compute)


def trav_layer(seed: int, n_cases: int) -> Dict[str, Any]:
    """function-level traversals (C06)"""

    def compute() -> Dict[str, Any]:
        from . import trav

        per = max(1, n_cases // N_WORKERS)
        t0 = time.time()
        with ProcessPoolExecutor(max_workers=N_WORKERS) as ex:
            parts = list(ex.map(trav.worker, [(seed * 7919 + i, per) for i in range(N_WORKERS)]))
        shapes = set()
        findings = []
        for p in parts:
            shapes.update(tuple(s) for s in p["shapes"])
            findings += p["findings"]
        return {"cases": sum(p["n"] for p in parts), "findings": fw.pick(findings, 40), "n_findings": sum(p["n_findings"] for p in parts),
                "shapes": sorted(shapes), "skipped_near_boundary": sum(p["skipped"] for p in parts),
                "sample": parts[0]["sample"], "wall_s": round(time.time() - t0, 2)}

    return fw.cached("trav", {"seed": seed, "n": n_cases}, compute)


def coll_layer(seed: int, n_cases: int) -> Dict[str, Any]:
    """function-level index operation sequences (C08)"""

    def compute() -> Dict[str, Any]:
        from . import collops

        per = max(1, n_cases // N_WORKERS)
        t0 = time.time()
        with ProcessPoolExecutor(max_workers=N_WORKERS) as ex:
            parts = list(ex.map(collops.worker, [(seed * 104729 + i, per) for i in range(N_WORKERS)]))
        shapes = set()
        findings = []
        for p in parts:
            shapes.update(tuple(s) for s in p["shapes"])
            findings += p["findings"]
        return {"cases": sum(p["n"] for p in parts), "ops": sum(p["ops"] for p in parts), "lookups": sum(p["lookups"] for p in parts),
                "findings": fw.pick(findings, 40),
                "n_findings": sum(p["n_findings"] for p in parts), "shapes": sorted(shapes, key=str), "sample": parts[0]["sample"],
                "wall_s": round(time.time() - t0, 2)}

    return fw.cached("coll", {"seed": seed, "n": n_cases}, compute)


def stack_layer(seed: int, n_cases: int) -> Dict[str, Any]:
    """instruction stack of whole steps (C09)"""

    def compute() -> Dict[str, Any]:
        from . import stack

        seeds = [seed * 15485863 + i for i in range(n_cases)]
        chunks = [c for c in (seeds[i::N_WORKERS] for i in range(N_WORKERS)) if c]
        t0 = time.time()
        with ProcessPoolExecutor(max_workers=len(chunks)) as ex:
            parts = list(ex.map(stack.worker, chunks))
        shapes = set()
        findings = []
        for p in parts:
            shapes.update(tuple(s) for s in p["shapes"])
            findings += p["findings"]
        return {"cases": n_cases, "steps": sum(p["n"] for p in parts), "findings": fw.pick(findings, 40),
                "n_findings": sum(p["n_findings"] for p in parts), "shapes": sorted(shapes),
                "sample": next((p["sample"] for p in parts if p["sample"]), None), "wall_s": round(time.time() - t0, 2)}

    return fw.cached("stack", {"seed": seed, "n": n_cases}, compute)


def mech_layer(seed: int, n_cases: int) -> Dict[str, Any]:
    """function-level mechatronics arithmetic (C04/C05)"""

    def compute() -> Dict[str, Any]:
        from . import mech

        per = max(1, n_cases // N_WORKERS)
        t0 = time.time()
        with ProcessPoolExecutor(max_workers=N_WORKERS) as ex:
            parts = list(ex.map(mech.worker, [(seed * 32452843 + i, per) for i in range(N_WORKERS)]))
        shapes = set()
        findings = []
        for p in parts:
            shapes.update(tuple(s) for s in p["shapes"])
            findings += p["findings"]
        return {"cases": sum(p["n"] for p in parts), "findings": fw.pick(findings, 40), "n_findings": sum(p["n_findings"] for p in parts),
                "shapes": sorted(shapes, key=str), "sample": parts[0]["sample"], "wall_s": round(time.time() - t0, 2)}

    return fw.cached("mech", {"seed": seed, "n": n_cases}, compute)


def generic_layer(name: str, module: str, seed: int, n_cases: int, mult: int, extra_sums=("steps", "rows")) -> Dict[str, Any]:
    """function-level layers whose module has `worker((seed, count)) -> {n, findings, n_findings, shapes, sample, …}`"""

    def compute() -> Dict[str, Any]:
        import importlib

        mod = importlib.import_module(f"harness.{module}")
        per = max(1, n_cases // N_WORKERS)
        t0 = time.time()
        with ProcessPoolExecutor(max_workers=N_WORKERS) as ex:
            parts = list(ex.map(mod.worker, [(seed * mult + i, per) for i in range(N_WORKERS)]))
        shapes = set()
        findings = []
        for p in parts:
            shapes.update(tuple(s) if isinstance(s, list) else s for s in p["shapes"])
            findings += p["findings"]
        out = {"cases": sum(p["n"] for p in parts), "findings": fw.pick(findings, 40), "n_findings": sum(p["n_findings"] for p in parts),
               "shapes": sorted(shapes, key=str), "sample": parts[0]["sample"], "wall_s": round(time.time() - t0, 2)}
        for k in extra_sums:
            out[k] = sum(p.get(k, 0) for p in parts)
        return out

    return fw.cached(name, {"seed": seed, "n": n_cases}, compute)


def timed_layer(seed: int, n_cases: int) -> Dict[str, Any]:
    """request files and price tables through the real pre-step update functions (C11)"""
    return generic_layer("timed", "timed", seed, n_cases, 49979687)


def layout_layer(seed: int, n_cases: int) -> Dict[str, Any]:
    """generated vehicles / stations / bases / fleets files through the real initialisation (C02 at time zero)"""
    return generic_layer("layout", "layout", seed, n_cases, 32452843)


def queuerun_layer(seed: int, n_cases: int) -> Dict[str, Any]:
    """whole steps under the built-in generators on charging queues (C18)"""
    return generic_layer("queuerun", "queuerun", seed, n_cases, 15485867)


def shift_layer(seed: int, n_cases: int) -> Dict[str, Any]:
    """shift tables and human drivers through the real driver phase and dispatcher (C20)"""
    return generic_layer("shift", "shift", seed, n_cases, 86028121)


def cosim_layer(seed: int, n_cases: int) -> Dict[str, Any]:
    """packaged scenarios advanced by split co-simulation calls, one call, the batch runner and single steps (C15)"""
    return generic_layer("cosim", "cosim", seed, n_cases, 67867979)


def dispatch_layer(seed: int, n_cases: int) -> Dict[str, Any]:
    """the real trip dispatcher on mixed states, every assignment certified (C12; dispatcher clauses of C10, C17, C20)"""
    return generic_layer("dispatch", "dispatch", seed, n_cases, 15487469)


def router_layer(seed: int, n_cases: int) -> Dict[str, Any]:
    """generated street graphs through the real OSMRoadNetwork router, routes and junction paths checked (C13, C14)"""
    return generic_layer("router", "router", seed, n_cases, 32452867)


def events_layer(seed: int, n_cases: int) -> Dict[str, Any]:
    """whole runs through the real file-writing handlers, the written log parsed back and audited (C19)"""
    return generic_layer("events", "events", seed, n_cases, 49979693)


def hashseed_layer(seed: int, n_cases: int) -> Dict[str, Any]:
    """whole runs and function-level worlds repeated in separate interpreters under different PYTHONHASHSEED values (C01)"""
    return generic_layer("hashseed", "hashseed", seed, n_cases, 86028157)
