"""Function-level correspondence for shift schedules (C20): shift tables are parsed by the real
`time_range_schedules_from_string`, human drivers are stepped by the real
`perform_driver_state_updates` over multi-day runs with arbitrary start times and step lengths;
availability and shift events are compared with the Lean model `Hive.Shift.driverUpdates` after
every step, the closed-form statement is evaluated by Lean on the implementation's trace, and the
real Dispatcher's assignments are checked against driver availability."""
from __future__ import annotations

from . import framework as fw  # noqa: E402

import logging
import random
from dataclasses import replace
from typing import Any, Dict, List

from nrel.hive.dispatcher.instruction.instructions import DispatchTripInstruction
from nrel.hive.dispatcher.instruction_generator.dispatcher import Dispatcher
from nrel.hive.model.vehicle.schedules.time_range_schedule import time_range_schedules_from_string
from nrel.hive.reporting.report_type import ReportType
from nrel.hive.state.driver_state.human_driver_state.human_driver_attributes import HumanDriverAttributes
from nrel.hive.state.driver_state.human_driver_state.human_driver_state import HumanAvailable, HumanUnavailable
from nrel.hive.state.simulation_state import simulation_state_ops
from nrel.hive.state.simulation_state.update import step_simulation as ss_mod
from nrel.hive.state.simulation_state.update.step_simulation import StepSimulation
from nrel.hive.state.simulation_state.update.step_simulation_ops import perform_driver_state_updates
from nrel.hive.model.sim_time import SimTime

from .encode import enc_sim
from .world import World

DAY = 86400


def hms(sec: int) -> str:
    sec %= DAY
    return f"{sec // 3600:02d}:{(sec % 3600) // 60:02d}:{sec % 60:02d}"


def gen_case(rng: random.Random, k: int) -> Dict[str, Any]:
    w = World(random.Random(rng.getrandbits(48)), n_veh=(2, 7), n_stn=(1, 2), search_res=7, with_humans=True,
              with_fleets=rng.random() < 0.3)
    n = w.n
    t0 = rng.choice([0, 3600, rng.randrange(0, 3 * DAY), DAY - 1, DAY, 5 * DAY + 17])
    dt = rng.choice([1, 7, 60, 60, 300, 900, 3600, 7200, 43200, DAY - 1, DAY, DAY + 60])
    steps = rng.randint(10, 80)
    # ---- shift table: ordinary, wrapping, empty (start == end), whole day minus a second, and
    # shifts whose ends fall exactly on / next to step starts
    def boundary() -> int:
        return (t0 + rng.randint(0, steps) * dt + rng.choice([-1, 0, 0, 1])) % DAY

    ids = ["A", "B", "C", "D"][: rng.randint(1, 4)]
    rows = []
    for sid in ids:
        r = rng.random()
        if r < 0.3:
            a, b = sorted((rng.randrange(DAY), rng.randrange(DAY)))
        elif r < 0.55:
            b, a = sorted((rng.randrange(DAY), rng.randrange(DAY)))     # wraps past midnight
        elif r < 0.8:
            a, b = boundary(), boundary()
        elif r < 0.9:
            a = b = rng.choice([0, boundary()])                           # empty shift
        else:
            a, b = rng.choice([(0, DAY - 1), (DAY - 1, 0), (0, 1), (1, 0)])
        rows.append((sid, a, b))
    if rng.random() < 0.15:
        # a later row for the same id replaces the earlier one
        sid = rng.choice(ids)
        rows.append((sid, rng.randrange(DAY), rng.randrange(DAY)))
    csv_text = "schedule_id,start_time,end_time\n" + "\n".join(f"{sid},{hms(a)},{hms(b)}" for sid, a, b in rows)
    schedules = time_range_schedules_from_string(csv_text)
    env = w.env._replace(schedules=schedules)
    n.tables["sched"] = {sid: i for i, sid in enumerate(sorted(ids + ["nosched"]))}
    # ---- drivers
    sim = w.sim0._replace(sim_time=SimTime.build(t0), sim_timestep_duration_seconds=dt)
    drivers = []
    for vid in sorted(sim.vehicles.keys()):
        v = sim.vehicles[vid]
        if rng.random() < 0.8:
            sched = rng.choice(ids) if rng.random() < 0.93 else "nosched"
            attr = HumanDriverAttributes(vid, sched, rng.choice(w.base_ids), rng.random() < 0.3)
            avail = rng.random() < 0.5
            v = replace(v, driver_state=HumanAvailable(attr) if avail else HumanUnavailable(attr))
            sim = simulation_state_ops.modify_vehicle_safe(sim, v).unwrap()
            drivers.append([n.get("veh", vid), [n.get("sched", sched), avail]])
    # in half of the cases the vehicles are busy (any activity, set directly): availability follows the
    # clock whatever the vehicle is doing (the whole-step dispatcher probe is left out on such states)
    inject = rng.random() < 0.5
    if inject:
        from .hist import random_state

        for vid in sorted(sim.vehicles.keys()):
            if rng.random() < 0.6:
                try:
                    if rng.random() < 0.4 and not sim.requests:
                        sim = simulation_state_ops.add_request_safe(sim, w.new_request(sim)).unwrap()
                    st_ = random_state(w, sim, vid, rng)
                    v = replace(sim.vehicles[vid], vehicle_state=st_)
                    sim = simulation_state_ops.modify_vehicle_safe(sim, v).unwrap()
                except Exception:
                    pass
    sim_enc = enc_sim(n, sim)
    dispatcher = Dispatcher(env.config.dispatcher)
    obs: List[Dict[str, Any]] = []
    dispatched: List[List[Any]] = []
    raised = None
    for step in range(steps):
        env.reporter.reports = []
        sim_before = sim
        try:
            sim = perform_driver_state_updates(sim, env)
        except Exception as e:
            raised = {"step": step, "error": f"{type(e).__name__}: {e}"[:200]}
            break
        evs = [[n.get("veh", r.report["vehicle_id"]), r.report["schedule_event"] == "on"]
               for r in env.reporter.reports if r.report_type == ReportType.DRIVER_SCHEDULE_EVENT]
        obs.append({
            "time": int(sim.sim_time),
            "avail": [[n.get("veh", vid), bool(v.driver_state.available)] for vid, v in sorted(sim.vehicles.items())
                      if isinstance(v.driver_state, (HumanAvailable, HumanUnavailable))],
            "events": evs,
        })
        # the built-in dispatcher in this step, with a few fresh requests: one whole real
        # StepSimulation.update from the state the step started in (driver phase, generators,
        # instruction stack, application - as the runner wires them); the result is discarded,
        # what is kept is which trips were handed out and whether the driver was on shift then
        if not inject and rng.random() < 0.35:
            s2 = sim_before
            for _ in range(rng.randint(1, 4)):
                s2 = simulation_state_ops.add_request_safe(s2, w.new_request(s2)).unwrap()
            seen: Dict[str, Any] = {}
            orig_apply = ss_mod.apply_instructions

            def apply_spy(sim_, env_, instructions):
                seen["final"] = list(instructions)
                return orig_apply(sim_, env_, instructions)

            ss_mod.apply_instructions = apply_spy
            saved_reports = env.reporter.reports
            try:
                StepSimulation.from_tuple((dispatcher,)).update(s2, env)
            except Exception as e:
                raised = {"step": step, "error": f"step {type(e).__name__}: {e}"[:200]}
                break
            finally:
                ss_mod.apply_instructions = orig_apply
                env.reporter.reports = saved_reports
            for i in seen.get("final", []):
                if isinstance(i, DispatchTripInstruction):
                    # (availability as the driver phase of this very step left it: `sim`)
                    dispatched.append([int(sim.sim_time), [n.get("veh", i.vehicle_id), bool(sim.vehicles[i.vehicle_id].driver_state.available)]])
        sim = simulation_state_ops.tick(sim)
    return {
        "op": "shift", "id": f"h{k}", "sim": sim_enc, "parent": n.parent_table(),
        "tbl": [{"id": n.get("sched", sid), "start": a, "stop": b} for sid, a, b in rows],
        "drivers": drivers, "obs": obs, "dispatched": dispatched, "raised": raised,
        "meta": {"t0": t0, "dt": dt, "steps": steps, "busy": inject, "rows": [[sid, hms(a), hms(b)] for sid, a, b in rows]},
    }


def worker(args) -> Dict[str, Any]:
    logging.disable(logging.CRITICAL)
    from .lean import run_driver

    seed, count = args
    rng = random.Random(seed)
    recs = [gen_case(rng, seed * 100000 + i) for i in range(count)]
    outs = run_driver(recs)
    findings = []
    shapes = set()
    steps = 0
    n_disp = 0
    for r, o in zip(recs, outs):
        steps += len(r["obs"])
        n_disp += len(r["dispatched"])
        flips = sum(len(x["events"]) for x in r["obs"])
        kinds = set()
        for row in r["tbl"]:
            kinds.add("empty" if row["start"] == row["stop"] else ("wrap" if row["start"] > row["stop"] else "plain"))
        shapes.add((tuple(sorted(kinds)), r["meta"]["dt"] >= DAY, r["meta"]["dt"] < 60, min(flips, 5), bool(r["dispatched"])))
        if r["raised"]:
            findings.append({"id": r["id"], "kind": "mon", "record": r,
                             "text": [f"C20/run-stopped| the driver phase raised at step {r['raised']['step']}: {r['raised']['error']}"]})
        if "error" in o:
            findings.append({"id": r["id"], "kind": "driver-error", "text": [o["error"][:300]], "record": r})
        else:
            if o.get("diff"):
                findings.append({"id": r["id"], "kind": "diff", "text": o["diff"][:8], "record": r})
            if o.get("mon"):
                findings.append({"id": r["id"], "kind": "mon", "text": o["mon"][:8], "record": r})
    s = recs[0]
    return {"n": len(recs), "steps": steps, "rows": n_disp, "findings": fw.pick(findings, 20), "n_findings": len(findings),
            "shapes": sorted(shapes, key=str),
            "sample": {"meta": s["meta"], "drivers": s["drivers"][:4], "first_steps": s["obs"][:3], "dispatched": s["dispatched"][:4]}}
