"""`./check <property> --replay <file>`: re-run the recorded failing case against the current /repo
tree and the current model, print what the monitors and the comparison say now, and exit 1 with a
VIOLATION line if the recorded problem (or another violation of the same property in that case)
is still there, 0 if the case is clean now, 2 if the case cannot be regenerated."""
from __future__ import annotations

import importlib
import json
import os
import random
import re
import sys
from typing import Any, Dict, List

from . import framework as fw

MODULES = {"timed": "timed", "shift": "shift", "cosim": "cosim", "dispatch": "dispatch", "router": "router", "events": "events",
           "hashseed": "hashseed", "coll": "collops", "trav": "trav", "mech": "mech"}


def _report(prop: str, path: str, msgs: List[str], recorded_sig: str) -> int:
    mine = [m for m in msgs if m.startswith(prop + "/") or not re.match(r"^C\d\d/", m)]
    for m in msgs[:20]:
        print(("  * " if m in mine else "    ") + m[:400])
    if mine:
        same = any(m.split("|", 1)[0].strip() == recorded_sig for m in mine)
        print(f"replay: the case still fails ({'same signature' if same else 'different signature'})")
        print(f"VIOLATION property={prop} replay={os.path.relpath(path, fw.VERIF)}")
        return 1
    print("replay: the recorded case is clean on the current tree")
    return 0


def _hist(prop: str, d: Dict[str, Any]) -> List[str]:
    from .hist import run_history
    from .lean import run_driver
    from .world import World

    seed, steps, opts = d["history_seed"], d["steps"], d.get("opts") or {}
    rng = random.Random(seed)
    w = World(rng, **opts.get("world", {}))
    recs = run_history(w, rng, steps, tag=f"h{seed}", **opts.get("hist", {}))
    outs = run_driver(recs)
    msgs: List[str] = []
    for r, o in zip(recs, outs):
        if r["op"] == "cfg" or r.get("skip"):
            continue
        if "error" in o:
            msgs.append(f"{r['id']}: driver error {o['error'][:200]}")
        for m in o.get("mon", []):
            msgs.append(m + f"   [{r['id']}]")
        for x in o.get("diff", [])[:4]:
            msgs.append(f"model/implementation disagree at {r['id']}: {x}")
    return msgs


def _simple(layer: str, d: Dict[str, Any]) -> List[str]:
    rid = str(d["record_id"])
    if layer == "stack":
        from . import stack

        seed = int(re.match(r"s(\d+):", rid).group(1))
        out = stack.worker([seed])
    else:
        mod = importlib.import_module("harness." + MODULES[layer])
        k = int(re.sub(r"^\D+", "", rid))
        wseed, idx = divmod(k, 100000)
        out = mod.worker((wseed, idx + 1))
    msgs: List[str] = []
    for f in out["findings"]:
        if str(f["id"]) == rid or layer == "stack":
            for t in f["text"]:
                msgs.append(t if f["kind"] == "mon" else f"model/implementation disagree ({f['kind']}): {t}")
    return msgs


def replay(prop: str, path: str) -> int:
    d = json.load(open(path))
    layer = d.get("layer")
    sig = d.get("signature", "")
    print(f"replay of {os.path.basename(path)}: property {d.get('property')}, layer {layer}, recorded: {str(d.get('what') or d.get('no_longer_checks'))[:300]}")
    if layer is None:
        # a proof obligation that no longer checked: rebuild and audit
        ps = fw.ProofStatus(prop, [f"Properties.{prop}"])
        if ps.ok:
            print("replay: the proof obligations check on the current tree")
            return 0
        print(f"replay: still failing: {ps.failing_obligation()}")
        print(f"VIOLATION property={prop} replay={os.path.relpath(path, fw.VERIF)} no-failing-input-found")
        return 1
    try:
        msgs = _hist(prop, d) if layer == "hist" else _simple(layer, d)
    except Exception as e:  # cannot regenerate
        print(f"replay: cannot regenerate the case: {type(e).__name__}: {e}")
        return 2
    return _report(prop, path, msgs, sig)
