"""Correspondence for the instruction stack (C09): the real StepSimulation.update with several
scripted generators and the vehicles' own drivers; the list handed to apply_instructions is
compared with the Lean model `finalInstructions gens drivers`."""
from __future__ import annotations

from . import framework as fw  # noqa: E402

import logging
import random
from typing import Any, Dict, List, Tuple

from nrel.hive.dispatcher.instruction_generator.instruction_generator import InstructionGenerator
from nrel.hive.state.simulation_state.update import step_simulation as ss
from nrel.hive.state.simulation_state.update.step_simulation import StepSimulation
from nrel.hive.util.dict_ops import DictOps

from .encode import enc_instr
from .hist import random_instruction
from .world import World


class Scripted(InstructionGenerator):
    """emits a prepared list each step (a frozen dataclass is required by the base class contract only by convention)"""

    def __init__(self, name: str, script):
        self._name = name
        self.script = script
        self.emitted: List[Any] = []

    @property
    def name(self):
        return self._name

    def generate_instructions(self, simulation_state, environment):
        out = tuple(self.script(simulation_state))
        self.emitted = list(out)
        return self, out


def run_case(seed: int) -> List[Dict[str, Any]]:
    rng = random.Random(seed)
    w = World(rng, n_veh=(3, 6), search_res=7)
    n = w.n
    sim = w.sim0
    n_gen = rng.randint(1, 3)

    def script(sim_):
        out = []
        for vid in sorted(sim_.vehicles.keys()):
            for _ in range(rng.choice([0, 0, 1, 1, 2])):
                out.append(random_instruction(w, sim_, vid, rng))
        rng.shuffle(out)
        return out

    gens = [Scripted(f"g{i}", script) for i in range(n_gen)]
    step = StepSimulation.from_tuple(tuple(gens))
    recs = []
    captured: Dict[str, Any] = {}
    pushes: List[Tuple[str, Any]] = []
    orig_apply = ss.apply_instructions
    orig_push = DictOps.__dict__["add_to_stack_dict"].__func__

    def apply_spy(sim_, env_, instructions):
        captured["final"] = list(instructions)
        return orig_apply(sim_, env_, instructions)

    def push_spy(cls, xs, collection_id, obj):
        pushes.append((collection_id, obj))
        return orig_push(cls, xs, collection_id, obj)

    # the drivers' own instructions are observed where they are made (not where they are pushed)
    from nrel.hive.state.driver_state.autonomous_driver_state.autonomous_available import AutonomousAvailable
    from nrel.hive.state.driver_state.human_driver_state.human_driver_state import HumanAvailable, HumanUnavailable

    driver_made: List[Any] = []
    driver_classes = (AutonomousAvailable, HumanAvailable, HumanUnavailable)
    orig_gen = {c: c.generate_instruction for c in driver_classes}

    def wrap(c):
        def generate_instruction(self, sim_, env_, previous_instructions=None):
            i = orig_gen[c](self, sim_, env_, previous_instructions)
            if i is not None:
                driver_made.append(i)
            return i

        return generate_instruction

    for c in driver_classes:
        c.generate_instruction = wrap(c)
    ss.apply_instructions = apply_spy
    DictOps.add_to_stack_dict = classmethod(push_spy)
    try:
        for k in range(rng.randint(2, 6)):
            # requests so that human drivers look for them
            if rng.random() < 0.5:
                from nrel.hive.state.simulation_state import simulation_state_ops

                sim = simulation_state_ops.add_request_safe(sim, w.new_request(sim)).unwrap()
            pushes.clear()
            captured.clear()
            driver_made.clear()
            sim, step = step.update(sim, w.env)
            gen_lists = [list(g.emitted) for g in step.ordered_instruction_generators]
            scripted_ids = {id(i) for g in gen_lists for i in g}
            drivers = list(driver_made)
            recs.append(
                {
                    "op": "stack",
                    "id": f"s{seed}:{k}",
                    "gens": [[enc_instr(n, i) for i in g] for g in gen_lists],
                    "drivers": [enc_instr(n, i) for i in drivers],
                    "final": [enc_instr(n, i) for i in captured.get("final", [])],
                    "shape": [n_gen, len(drivers) > 0, max((sum(1 for g in gen_lists for i in g if i.vehicle_id == v) for v in sim.vehicles), default=0)],
                }
            )
            w.env.reporter.reports = []
    finally:
        ss.apply_instructions = orig_apply
        DictOps.add_to_stack_dict = classmethod(orig_push)
        for c in driver_classes:
            c.generate_instruction = orig_gen[c]
    return recs


def worker(args) -> Dict[str, Any]:
    logging.disable(logging.CRITICAL)
    from .lean import run_driver

    seeds = args
    recs: List[Dict[str, Any]] = []
    for s in seeds:
        recs += run_case(s)
    outs = run_driver(recs)
    findings = []
    shapes = set()
    for r, o in zip(recs, outs):
        shapes.add(tuple(r["shape"]))
        if "error" in o:
            findings.append({"id": r["id"], "kind": "driver-error", "text": [o["error"][:300]], "record": r})
        else:
            if o.get("diff"):
                findings.append({"id": r["id"], "kind": "diff", "text": o["diff"][:4], "record": r})
            if o.get("mon"):
                findings.append({"id": r["id"], "kind": "mon", "text": o["mon"][:4], "record": r})
    return {"n": len(recs), "findings": fw.pick(findings, 20), "n_findings": len(findings), "shapes": sorted(shapes),
            "sample": {k: recs[0][k] for k in ("gens", "drivers", "final")} if recs else None}
