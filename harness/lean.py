"""Running the Lean driver over a batch of protocol lines."""
from __future__ import annotations

import json
import os
import subprocess
from typing import Any, Dict, Iterable, List

LEAN_DIR = os.path.join(os.path.dirname(os.path.dirname(os.path.abspath(__file__))), "lean")


def run_driver(lines: Iterable[Dict[str, Any]], timeout: int = 3600) -> List[Dict[str, Any]]:
    """send the records to `lake env lean --run Driver.lean`, return one answer per record"""
    payload = "\n".join(json.dumps(l, separators=(",", ":")) for l in lines) + "\n"
    p = subprocess.run(
        ["lake", "env", "lean", "--run", "Driver.lean"],
        cwd=LEAN_DIR,
        input=payload.encode(),
        stdout=subprocess.PIPE,
        stderr=subprocess.PIPE,
        timeout=timeout,
    )
    if p.returncode != 0:
        raise RuntimeError(f"lean driver failed ({p.returncode}): {p.stderr.decode()[-2000:]}")
    out = [json.loads(l) for l in p.stdout.decode().splitlines() if l.strip()]
    return out
