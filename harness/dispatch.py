"""Function-level layer for the trip dispatcher (C12, and the dispatcher clauses of C10, C17, C20):
states with a mix of activities, charge levels, shifts, fleets and waiting / already assigned
requests are produced by short random histories; the real `Dispatcher.generate_instructions` runs on
them with `assignment_ops.find_assignment` observed (assignees, targets, solution of every call).
Lean compares the assignees / targets with the model's eligibility filters and accepts each solution
only with a dual certificate (potentials computed here by an independent Hungarian method)."""
from __future__ import annotations

from . import framework as fw  # noqa: E402

import logging
import random
from typing import Any, Dict, List, Tuple

import h3

from nrel.hive.dispatcher.instruction.instructions import DispatchTripInstruction
from nrel.hive.dispatcher.instruction_generator import assignment_ops
from nrel.hive.dispatcher.instruction_generator.dispatcher import Dispatcher
from nrel.hive.state.simulation_state import simulation_state_ops
from nrel.hive.state.simulation_state.update.step_simulation_ops import apply_instructions, perform_vehicle_state_updates

from .encode import enc_sim, q
from .hist import controller
from .world import World

INF = 10 ** 15


def hungarian(cost: List[List[int]]) -> Tuple[List[int], List[int], List[int]]:
    """rows <= cols, integer costs. returns (match: row -> col, u over rows, v over cols) with
    u[i] + v[j] <= cost[i][j], equality on matched pairs, v <= 0 and v = 0 on unmatched columns"""
    n, m = len(cost), len(cost[0]) if cost else 0
    u = [0] * (n + 1)
    v = [0] * (m + 1)
    p = [0] * (m + 1)
    way = [0] * (m + 1)
    for i in range(1, n + 1):
        p[0] = i
        j0 = 0
        minv = [INF] * (m + 1)
        used = [False] * (m + 1)
        while True:
            used[j0] = True
            i0 = p[j0]
            delta = INF
            j1 = 0
            for j in range(1, m + 1):
                if not used[j]:
                    cur = cost[i0 - 1][j - 1] - u[i0] - v[j]
                    if cur < minv[j]:
                        minv[j] = cur
                        way[j] = j0
                    if minv[j] < delta:
                        delta = minv[j]
                        j1 = j
            for j in range(m + 1):
                if used[j]:
                    u[p[j]] += delta
                    v[j] -= delta
                else:
                    minv[j] -= delta
            j0 = j1
            if p[j0] == 0:
                break
        while True:
            j1 = way[j0]
            p[j0] = p[j1]
            j0 = j1
            if j0 == 0:
                break
    match = [-1] * n
    for j in range(1, m + 1):
        if p[j]:
            match[p[j] - 1] = j - 1
    return match, u[1:], v[1:]


def gen_case(rng: random.Random, k: int) -> Dict[str, Any]:
    with_fleets = rng.random() < 0.6
    w = World(random.Random(rng.getrandbits(48)), n_veh=(1, 9), n_stn=(1, 3), n_base=(1, 2), search_res=7,
              with_fleets=with_fleets, with_humans=True)
    env, n = w.env, w.n
    valid = rng.choice([("idle", "repositioning"), ("idle", "repositioning"), ("idle",), ("idle", "repositioning", "reservebase", "chargingbase"),
                        ("idle", "repositioning", "dispatchbase", "dispatchstation", "chargingstation")])
    match_range = rng.choice([20.0, 20.0, 60.0, 150.0, 250.0])
    base_range = rng.choice([100.0, 30.0, 300.0])
    env = env._replace(config=env.config._replace(dispatcher=env.config.dispatcher._replace(
        valid_dispatch_states=valid, matching_range_km_threshold=match_range, base_charging_range_km_threshold=base_range)))
    if with_fleets and rng.random() < 0.35:
        # a single declared fleet; vehicles and requests of the other fleet are still around
        env = env._replace(fleet_ids=frozenset({rng.choice(["fA", "fB"])}))
    sim = w.sim0
    # a short adversarial history: activities, positions, charge levels and assigned requests get mixed
    for _ in range(rng.randint(0, 6)):
        if rng.random() < 0.7:
            for _ in range(rng.choice([1, 2, 4])):
                sim = simulation_state_ops.add_request_safe(sim, w.new_request(sim)).unwrap()
        try:
            sim = apply_instructions(sim, env, tuple(controller(w, sim, rng, 0.5)))
            sim = perform_vehicle_state_updates(sim, env)
        except Exception:
            pass
        sim = simulation_state_ops.tick(sim)
    if rng.random() < 0.5:
        # vehicles standing at a base that has a station are plugged in there (real instruction), so that parked and
        # charging vehicles - with drivers on and off shift - are among the candidates when the valid states allow them
        from nrel.hive.dispatcher.instruction.instructions import ChargeBaseInstruction, ReserveBaseInstruction

        for b in sorted(sim.bases.values(), key=lambda b_: b_.id):
            for vid in sorted(sim.vehicles):
                veh = sim.vehicles[vid]
                if veh.geoid != b.geoid or rng.random() < 0.3:
                    continue
                try:
                    if b.station_id is not None and b.station_id in sim.stations and rng.random() < 0.7:
                        ch = rng.choice(sorted(sim.stations[b.station_id].state.keys()))
                        sim = apply_instructions(sim, env, (ChargeBaseInstruction(vid, b.id, ch),))
                    else:
                        sim = apply_instructions(sim, env, (ReserveBaseInstruction(vid, b.id),))
                except Exception:
                    pass
    for _ in range(rng.choice([0, 1, 2, 3, 5, 8])):
        sim = simulation_state_ops.add_request_safe(sim, w.new_request(sim)).unwrap()
    env.reporter.reports = []
    # ---- observe find_assignment
    calls: List[Dict[str, Any]] = []
    real = assignment_ops.find_assignment

    def spy(assignees, targets, cost_fn):
        sol = real(assignees, targets, cost_fn)
        calls.append({"V": [a.id for a in assignees], "R": [t.id for t in targets], "pairs": [list(p) for p in sol.solution]})
        return sol

    assignment_ops.find_assignment = spy
    raised = None
    instrs = ()
    try:
        _, instrs = Dispatcher(env.config.dispatcher).generate_instructions(sim, env)
    except Exception as e:
        raised = f"{type(e).__name__}: {e}"[:300]
    finally:
        assignment_ops.find_assignment = real
    # ---- the other built-in generator that pairs vehicles with fleet-owned entities: the charging fleet manager
    # (every idle / repositioning vehicle made a candidate by high range thresholds); its instructions name a
    # station (or base) for a vehicle - the pair is judged by the membership rule (C10), as the dispatcher's pairs are
    cfm_pairs: List[Any] = []
    try:
        from nrel.hive.dispatcher.instruction_generator.charging_fleet_manager import ChargingFleetManager
        from nrel.hive.dispatcher.instruction import instructions as _I

        env_c = env._replace(config=env.config._replace(dispatcher=env.config.dispatcher._replace(
            charging_range_km_threshold=rng.choice([50.0, 500.0, 5000.0]), charging_range_km_soft_threshold=rng.choice([100.0, 5000.0]),
            max_search_radius_km=rng.choice([5.0, 100.0]))))
        _, c_instrs = ChargingFleetManager(env_c.config.dispatcher).generate_instructions(sim, env_c)
        for i in c_instrs:
            if isinstance(i, (_I.DispatchStationInstruction, _I.ChargeStationInstruction)) and i.station_id in sim.stations:
                cfm_pairs.append([0, [n.get("veh", i.vehicle_id), n.get("stn", i.station_id)]])
            elif isinstance(i, (_I.DispatchBaseInstruction, _I.ChargeBaseInstruction, _I.ReserveBaseInstruction)) and i.base_id in sim.bases:
                cfm_pairs.append([1, [n.get("veh", i.vehicle_id), n.get("base", i.base_id)]])
    except Exception:
        pass
    env.reporter.reports = []
    fleet_order = sorted(env.fleet_ids, key=str) if len(env.fleet_ids) > 0 else [None]
    py_msgs: List[str] = []
    if raised is None and len(calls) != len(fleet_order):
        py_msgs.append(f"C12/calls| {len(calls)} assignment problems solved for {len(fleet_order)} fleets")
    out_calls = []
    cost_tbl: Dict[Tuple[str, str], int] = {}
    for fleet, c in zip(fleet_order, calls):
        V, R = c["V"], c["R"]
        for vid in V:
            for rid in R:
                cost_tbl[(vid, rid)] = int(h3.h3_distance(sim.vehicles[vid].geoid, sim.requests[rid].geoid))
        pot_v: Dict[str, int] = {}
        pot_r: Dict[str, int] = {}
        opt = 0
        if V and R:
            if len(V) <= len(R):
                tbl = [[cost_tbl[(a, b)] for b in R] for a in V]
                mt, u, vv = hungarian(tbl)
                pot_v, pot_r = dict(zip(V, u)), dict(zip(R, vv))
            else:
                tbl = [[cost_tbl[(a, b)] for a in V] for b in R]
                mt, u, vv = hungarian(tbl)
                pot_r, pot_v = dict(zip(R, u)), dict(zip(V, vv))
            opt = sum(tbl[i][j] for i, j in enumerate(mt))
        out_calls.append({
            "fleet": None if fleet is None else n.get("fleet", fleet),
            "implV": sorted(n.get("veh", x) for x in V), "implR": sorted(n.get("req", x) for x in R),
            "pairs": [[n.get("veh", a), n.get("req", b)] for a, b in c["pairs"]],
            "potV": [[n.get("veh", a), x] for a, x in sorted(pot_v.items())],
            "potR": [[n.get("req", a), x] for a, x in sorted(pot_r.items())],
            "optCost": opt,
        })
    got = sorted((i.vehicle_id, i.request_id) for i in instrs if isinstance(i, DispatchTripInstruction))
    want = sorted((a, b) for c in calls for a, b in c["pairs"])
    if raised is None and got != want:
        py_msgs.append(f"C12/instructions| the instructions returned {got} are not the assignment solutions {want}")
    ranges = []
    km_per_unit = []
    from nrel.hive.util.units import MILE_TO_KM, WH_TO_KWH

    for vid, veh in sorted(sim.vehicles.items()):
        mech = env.mechatronics.get(veh.mechatronics_id)
        ranges.append([n.get("veh", vid), None if mech is None else q(mech.range_remaining_km(veh))])
        # the nominal consumption from the mechatronics' own attributes (not through range_remaining_km)
        if mech is not None and hasattr(mech, "nominal_watt_hour_per_mile"):
            km_per_unit.append([n.get("veh", vid), q(MILE_TO_KM / (mech.nominal_watt_hour_per_mile * WH_TO_KWH))])
        elif mech is not None and hasattr(mech, "nominal_miles_per_gallon"):
            km_per_unit.append([n.get("veh", vid), q(mech.nominal_miles_per_gallon * MILE_TO_KM)])
    return {
        "op": "dispatch", "id": f"d{k}", "sim": enc_sim(n, sim), "cfg": {"validKinds": list(valid), "matchRange": q(match_range), "baseRange": q(base_range)},
        "ranges": ranges, "kmPerUnit": km_per_unit, "calls": out_calls, "cost": [[n.get("veh", a), [n.get("req", b), c]] for (a, b), c in sorted(cost_tbl.items())],
        "pyMsgs": py_msgs, "raised": raised, "cfmPairs": cfm_pairs,
        "meta": {"cfm_pairs": len(cfm_pairs), "fleets": [str(f) for f in fleet_order], "valid": list(valid), "match_range": match_range, "sizes": [[len(c["V"]), len(c["R"])] for c in calls],
                 "acts": sorted({type(v.vehicle_state).__name__ for v in sim.vehicles.values()})},
    }


def worker(args) -> Dict[str, Any]:
    logging.disable(logging.CRITICAL)
    from .lean import run_driver

    seed, count = args
    rng = random.Random(seed)
    recs = [gen_case(rng, seed * 100000 + i) for i in range(count)]
    outs = run_driver(recs)
    findings = []
    shapes = set()
    problems = 0
    pairs = 0
    for r, o in zip(recs, outs):
        for (nv, nr), c in zip(r["meta"]["sizes"], r["calls"]):
            problems += 1
            pairs += len(c["pairs"])
            shapes.add((min(nv, 4), min(nr, 4), "v<r" if nv < nr else ("v=r" if nv == nr else "v>r"), c["fleet"] is not None, len(r["meta"]["valid"])))
        if r["raised"]:
            findings.append({"id": r["id"], "kind": "mon", "record": r, "text": [f"C12/run-stopped| the dispatcher raised: {r['raised']}"]})
        if r["pyMsgs"]:
            findings.append({"id": r["id"], "kind": "mon", "record": r, "text": r["pyMsgs"][:8]})
        if "error" in o:
            findings.append({"id": r["id"], "kind": "driver-error", "text": [o["error"][:300]], "record": r})
        else:
            if o.get("diff"):
                findings.append({"id": r["id"], "kind": "diff", "text": o["diff"][:8], "record": r})
            if o.get("mon"):
                findings.append({"id": r["id"], "kind": "mon", "text": o["mon"][:8], "record": r})
    s = recs[0]
    return {"n": len(recs), "steps": problems, "rows": pairs, "findings": fw.pick(findings, 20), "n_findings": len(findings), "shapes": sorted(shapes, key=str),
            "sample": {"meta": s["meta"], "calls": s["calls"][:2]}}
