"""Common machinery of every check: Lean build + axiom audit, result cache, verdicts against the
known-findings file, replay files, evidence files."""
from __future__ import annotations

import hashlib
import json
import os
import re
import subprocess
import sys
import time
from typing import Any, Callable, Dict, Iterable, List, Optional, Tuple

VERIF = os.path.dirname(os.path.dirname(os.path.abspath(__file__)))
LEAN_DIR = os.path.join(VERIF, "lean")
REPO = "/repo"
WORK = os.path.join(VERIF, ".work")
EVIDENCE = os.path.join(VERIF, "evidence")
REPLAYS = os.path.join(VERIF, "replays")
KNOWN = os.path.join(VERIF, "known_findings.json")

ALLOWED_AXIOMS = {"propext", "Classical.choice", "Quot.sound"}
FORBIDDEN = re.compile(r"\b(sorry|admit|native_decide|bv_decide|implemented_by)\b|^\s*axiom\s|unsafe\s|maxHeartbeats\s+0")

TRUSTED_BASE_COMMON = [
    "Lean 4.33 kernel; axioms limited to propext, Classical.choice, Quot.sound (audited with #print axioms on every run)",
    "hand-written Lean model faithful to /repo: sampled/enumerated by the correspondence run of this check (see coverage)",
    "Python harness: encoder (harness/encode.py), oracle capture (harness/record.py), Lean-side canonical comparison (lean/Hive/Canon.lean)",
    "exact rational arithmetic in the model vs IEEE doubles in the code: numeric outputs compared with relative tolerance 1e-9",
    "CPython, h3, numpy, scipy, networkx as black boxes behind recorded oracle answers",
]


def tier_from_env(default: str = "quick") -> str:
    return os.environ.get("VERIF_TIER", default)


def seed_from_env() -> int:
    try:
        return int(os.environ.get("VERIF_SEED", "0"))
    except ValueError:
        return 0


# ------------------------------------------------------------------------------------------------
# Lean side
# ------------------------------------------------------------------------------------------------

def lean_sources() -> List[str]:
    out = []
    for root, dirs, files in os.walk(LEAN_DIR):
        dirs[:] = [d for d in dirs if d != ".lake"]
        for f in files:
            if f.endswith(".lean") or f.endswith(".toml"):
                out.append(os.path.join(root, f))
    return sorted(out)


def strip_comments(src: str) -> str:
    src = re.sub(r"/-.*?-/", "", src, flags=re.S)
    src = re.sub(r"--.*", "", src)
    return src


def hygiene_scan() -> List[str]:
    """forbidden constructs outside comments in any Lean source"""
    hits = []
    for p in lean_sources():
        if not p.endswith(".lean"):
            continue
        body = strip_comments(open(p).read())
        for i, line in enumerate(body.splitlines(), 1):
            if FORBIDDEN.search(line):
                hits.append(f"{os.path.relpath(p, VERIF)}:{i}: {line.strip()[:100]}")
    return hits


def lake_build(targets: Iterable[str], timeout: int = 3000) -> Tuple[bool, str]:
    p = subprocess.run(["lake", "build", *targets], cwd=LEAN_DIR, stdout=subprocess.PIPE, stderr=subprocess.STDOUT, timeout=timeout)
    return p.returncode == 0, p.stdout.decode(errors="replace")


def audit_axioms(prop: str) -> Tuple[Dict[str, List[str]], List[str]]:
    """run `lean/Audit/<prop>.lean` (a list of `#print axioms thm`); returns theorem → axioms and
    the list of problems (unknown axioms, sorryAx, missing file)"""
    path = os.path.join(LEAN_DIR, "Audit", f"{prop}.lean")
    if not os.path.exists(path):
        return {}, [f"Audit/{prop}.lean missing"]
    p = subprocess.run(["lake", "env", "lean", path], cwd=LEAN_DIR, stdout=subprocess.PIPE, stderr=subprocess.STDOUT, timeout=1800)
    text = p.stdout.decode(errors="replace")
    thms: Dict[str, List[str]] = {}
    problems: List[str] = []
    if p.returncode != 0:
        problems.append(f"audit file does not check: {text[-1500:]}")
    for m in re.finditer(r"'([^']+)' depends on axioms: \[([^\]]*)\]", text):
        axs = [a.strip() for a in m.group(2).replace("\n", " ").split(",") if a.strip()]
        thms[m.group(1)] = axs
        bad = [a for a in axs if a not in ALLOWED_AXIOMS]
        if bad:
            problems.append(f"{m.group(1)} depends on {bad}")
    for m in re.finditer(r"'([^']+)' does not depend on any axioms", text):
        thms[m.group(1)] = []
    wanted = re.findall(r"#print axioms\s+(\S+)", strip_comments(open(path).read()))
    for w in wanted:
        if w not in thms:
            problems.append(f"no axiom report for {w}")
    return thms, problems


CURRENT_TIER = "quick"      # set by main before the check runs


def leanchecker_all() -> Dict[str, Any]:
    """thorough tier: the compiled files of EVERY module of the project (model, proofs, properties) are
    replayed by `leanchecker`, the toolchain's independent re-checker of .olean files - the theorems
    are then accepted by two implementations of the kernel's rules, not one. Shared by the checks of a
    session through the layer cache (the key covers every Lean source)."""
    def compute() -> Dict[str, Any]:
        t0 = time.time()
        mods = []
        for lib in ("Hive", "Proofs", "Properties"):
            for root, _dirs, files in os.walk(os.path.join(LEAN_DIR, lib)):
                for f in sorted(files):
                    if f.endswith(".lean"):
                        rel = os.path.relpath(os.path.join(root, f), LEAN_DIR)
                        mods.append(rel[:-5].replace(os.sep, "."))
        # the regenerated iteration-site table and the theorems about it belong to C01 alone (its check
        # regenerates the table from the current source and builds them itself): a change of the code that
        # only moves an iteration site must not break the re-check of the other properties
        mods = sorted(m for m in mods if m not in ("Hive.Gen.Sites", "Properties.C01Sites"))
        ok_b, log_b = lake_build(mods)
        if not ok_b:
            return {"ok": False, "log": "lake build (all modules) failed: " + log_b[-800:], "modules": len(mods), "wall_s": round(time.time() - t0, 1)}
        p = subprocess.run(["lake", "env", "leanchecker", *mods], cwd=LEAN_DIR, stdout=subprocess.PIPE, stderr=subprocess.STDOUT, timeout=3000)
        return {"ok": p.returncode == 0, "log": p.stdout.decode(errors="replace")[-800:], "modules": len(mods), "wall_s": round(time.time() - t0, 1)}
    return cached("leanchecker", {}, compute)


def leanchecker_mods(mods: List[str]) -> Dict[str, Any]:
    """replay the compiled files of the given modules with leanchecker (not cached)"""
    t0 = time.time()
    p = subprocess.run(["lake", "env", "leanchecker", *mods], cwd=LEAN_DIR, stdout=subprocess.PIPE, stderr=subprocess.STDOUT, timeout=3000)
    return {"ok": p.returncode == 0, "log": p.stdout.decode(errors="replace")[-800:], "modules": len(mods), "wall_s": round(time.time() - t0, 1)}


class ProofStatus:
    def __init__(self, prop: str, targets: List[str]):
        t0 = time.time()
        self.prop = prop
        self.targets = targets
        self.hygiene = hygiene_scan()
        self.build_ok, self.build_log = lake_build(targets)
        self.recheck: Optional[Dict[str, Any]] = None
        if self.build_ok:
            self.theorems, self.problems = audit_axioms(prop)
            if CURRENT_TIER == "thorough":
                self.recheck = leanchecker_all()
                if not self.recheck["ok"]:
                    self.problems.append("leanchecker rejects the compiled files: " + self.recheck["log"][-300:])
        else:
            self.theorems, self.problems = {}, ["lake build failed"]
        self.wall = time.time() - t0

    @property
    def ok(self) -> bool:
        return self.build_ok and not self.hygiene and not self.problems and len(self.theorems) > 0

    def failing_obligation(self) -> str:
        if not self.build_ok:
            m = re.findall(r"error: ([^\n]+)", self.build_log)
            return "lake build " + " ".join(self.targets) + ": " + "; ".join(m[:5])
        if self.hygiene:
            return "forbidden construct: " + "; ".join(self.hygiene[:5])
        if self.problems:
            return "; ".join(self.problems[:5])
        return "no property theorem found"


# ------------------------------------------------------------------------------------------------
# cache of layer results, keyed by the contents of everything that determines them
# ------------------------------------------------------------------------------------------------

_TREE_HASH: Optional[str] = None


def tree_hash() -> str:
    global _TREE_HASH
    if _TREE_HASH is None:
        h = hashlib.sha256()
        roots = [os.path.join(REPO, "nrel"), os.path.join(VERIF, "harness"), LEAN_DIR]
        for r in roots:
            for root, dirs, files in os.walk(r):
                dirs[:] = sorted(d for d in dirs if d not in (".lake", "__pycache__"))
                for f in sorted(files):
                    if f.endswith((".py", ".lean", ".toml", ".yaml", ".csv", ".json")):
                        p = os.path.join(root, f)
                        h.update(p.encode())
                        with open(p, "rb") as fh:
                            h.update(fh.read())
        _TREE_HASH = h.hexdigest()
    return _TREE_HASH


def cached(name: str, params: Dict[str, Any], compute: Callable[[], Dict[str, Any]]) -> Dict[str, Any]:
    """layer results are deterministic functions of (sources, params): reuse them between the
    checks of one session. Any edited file under /repo/nrel, harness/ or lean/ changes the key."""
    if os.environ.get("VERIF_NO_CACHE"):
        r = compute()
        r["cache_hit"] = False
        return r
    key = hashlib.sha256((tree_hash() + name + json.dumps(params, sort_keys=True)).encode()).hexdigest()[:32]
    d = os.path.join(WORK, "cache")
    os.makedirs(d, exist_ok=True)
    path = os.path.join(d, f"{name}-{key}.json")
    if os.path.exists(path):
        try:
            r = json.load(open(path))
            r["cache_hit"] = True
            return r
        except Exception:
            pass
    r = compute()
    r["cache_hit"] = False
    tmp = path + f".{os.getpid()}.tmp"
    json.dump(r, open(tmp, "w"))
    os.replace(tmp, path)
    # keep the cache small
    files = sorted((os.path.getmtime(os.path.join(d, f)), f) for f in os.listdir(d))
    for _, f in files[:-60]:
        try:
            os.remove(os.path.join(d, f))
        except OSError:
            pass
    return r


# ------------------------------------------------------------------------------------------------
# verdicts
# ------------------------------------------------------------------------------------------------

def load_known() -> List[Dict[str, Any]]:
    if not os.path.exists(KNOWN):
        return []
    return json.load(open(KNOWN)).get("entries", [])


class Verdict:
    """collects what a check found and turns it into output lines, exit code, evidence"""

    def __init__(self, prop: str, tier: str, seed: int, level: str):
        self.prop = prop
        self.tier = tier
        self.seed = seed
        self.level = level
        self.t0 = time.time()
        self.violations: List[Dict[str, Any]] = []   # {"sig":…, "text":…, "replay":{…}}
        self.unproved: List[Dict[str, Any]] = []     # broken obligation / correspondence without failing input
        self.known_hit: Dict[str, int] = {}
        self.coverage: Dict[str, Any] = {}
        self.assumptions: List[str] = []
        self.notes: List[str] = []

    def violation(self, sig: str, text: str, replay: Dict[str, Any]) -> None:
        self.violations.append({"sig": sig, "text": text, "replay": replay})

    def broken(self, what: str, detail: Dict[str, Any]) -> None:
        self.unproved.append({"what": what, "detail": detail})

    def finish(self) -> int:
        os.makedirs(EVIDENCE, exist_ok=True)
        os.makedirs(REPLAYS, exist_ok=True)
        known = [e for e in load_known() if e.get("property") == self.prop and e.get("kind") == "finding"]
        lines: List[str] = []
        new_viol = []
        for v in self.violations:
            hit = None
            for e in known:
                if re.search(e["match"], v["sig"]):
                    hit = e
                    break
            if hit is not None:
                self.known_hit[hit["id"]] = self.known_hit.get(hit["id"], 0) + 1
            else:
                new_viol.append(v)
        for e in known:
            if e["id"] in self.known_hit:
                lines.append(f"KNOWN-FINDING: property={self.prop} {e['text']}")
        exit_code = 0
        seen_sig = set()
        for v in new_viol:
            if v["sig"] in seen_sig:
                continue
            seen_sig.add(v["sig"])
            h = hashlib.sha256((v["sig"] + json.dumps(v["replay"], sort_keys=True, default=str)).encode()).hexdigest()[:12]
            path = os.path.join(REPLAYS, f"{self.prop}-{h}.json")
            json.dump({"property": self.prop, "signature": v["sig"], "what": v["text"], **v["replay"]}, open(path, "w"), indent=1, default=str)
            lines.append(f"VIOLATION property={self.prop} replay={os.path.relpath(path, VERIF)}")
            exit_code = 1
        if not new_viol:
            for u in self.unproved:
                h = hashlib.sha256(json.dumps(u, sort_keys=True, default=str).encode()).hexdigest()[:12]
                path = os.path.join(REPLAYS, f"{self.prop}-unproved-{h}.json")
                json.dump({"property": self.prop, "no_longer_checks": u["what"], **u["detail"]}, open(path, "w"), indent=1, default=str)
                lines.append(f"VIOLATION property={self.prop} replay={os.path.relpath(path, VERIF)} no-failing-input-found")
                exit_code = 1
                break
        ev = {
            "property_id": self.prop,
            "tier": self.tier if self.tier in ("quick", "thorough") else "quick",
            "seed": self.seed,
            "level": self.level,
            "coverage": self.coverage,
            "assumptions": self.assumptions,
            "wall_s": round(time.time() - self.t0, 2),
            "violations": len(new_viol) + (len(self.unproved) if not new_viol else 0),
            "known_findings_hit": self.known_hit,
            "notes": self.notes,
        }
        json.dump(ev, open(os.path.join(EVIDENCE, f"{self.prop}.json"), "w"), indent=1, default=str)
        for l in lines:
            print(l)
        print(f"{self.prop}: {'FAIL' if exit_code else 'ok'} ({ev['wall_s']} s)")
        sys.stdout.flush()
        return exit_code


def proof_coverage(ps: ProofStatus) -> Dict[str, Any]:
    n = len(ps.theorems)
    return {
        "obligations": max(n, 1),
        "discharged": n if ps.ok else 0,
        "checker_cmd": f"cd lean && lake build {' '.join(ps.targets)} && lake env lean Audit/{ps.prop}.lean",
        "trusted_base": list(TRUSTED_BASE_COMMON),
        "theorems": {k: v for k, v in sorted(ps.theorems.items())},
        "proof_wall_s": round(ps.wall, 2),
        **({"leanchecker": {"modules_replayed": ps.recheck["modules"], "accepted": ps.recheck["ok"], "wall_s": ps.recheck["wall_s"],
                            "cmd": "cd lean && lake build && lake env leanchecker <every module of Hive, Proofs, Properties>"}} if ps.recheck else {}),
    }


def pick(findings: List[Dict[str, Any]], limit: int, per_key: int = 3) -> List[Dict[str, Any]]:
    """keep at most `limit` findings, diversified: monitor failures first, then at most `per_key` per
    (kind, signature with numbers blanked), so that a flood of one message (a known finding, or
    thousands of numerically different disagreements) cannot crowd out a different one"""
    import re as _re

    def keys_of(f):
        return {(f.get("kind"), _re.sub(r"[0-9]+", "#", str(t).split("|", 1)[0].strip())[:60]) for t in (f.get("text") or [""])}

    seen: Dict[Any, int] = {}
    first: List[Dict[str, Any]] = []
    rest: List[Dict[str, Any]] = []
    ordered = [f for f in findings if f.get("kind") == "mon"] + [f for f in findings if f.get("kind") != "mon"]
    for f in ordered:
        keys = keys_of(f)
        if any(seen.get(k, 0) < per_key for k in keys):
            first.append(f)
            for k in keys:
                seen[k] = seen.get(k, 0) + 1
        else:
            rest.append(f)
    return (first + rest)[:limit]
