"""Hash-seed layer (C01): the same work is done in separate interpreters under different
PYTHONHASHSEED values and the canonical per-step digests are compared.

 * whole runs of the packaged scenarios (harness/seedrun.py), 40-200 steps
 * function-level worlds with several fleets, vehicles in two fleets, tied station / charger
   rankings and co-located entities through the real StepSimulation.update (harness/seedfn.py)

The clock law of every whole run (step k shows start + k*dt) is checked by Lean on the way."""
from __future__ import annotations

from . import framework as fw  # noqa: E402

import json
import os
import random
import subprocess
import sys
from typing import Any, Dict, List

VERIF = os.path.dirname(os.path.dirname(os.path.abspath(__file__)))
SCENARIOS = ["denver_demo.yaml", "denver_demo_fleets.yaml", "denver_demo_constrained_charging.yaml"]


def _run(module: str, args: List[str], hashseed: int) -> Any:
    env = dict(os.environ, PYTHONHASHSEED=str(hashseed), PYTHONPATH=VERIF)
    p = subprocess.run([sys.executable, "-m", module] + args, cwd=VERIF, env=env, stdout=subprocess.PIPE, stderr=subprocess.PIPE, timeout=3000)
    if p.returncode != 0:
        raise RuntimeError(f"{module} failed under PYTHONHASHSEED={hashseed}: {p.stderr.decode()[-600:]}")
    return json.loads(p.stdout.decode().strip().splitlines()[-1])


def gen_case(rng: random.Random, k: int) -> Dict[str, Any]:
    seeds = [0, 1, rng.randrange(2, 4000)]
    msgs: List[str] = []
    raised = None
    try:
        if rng.random() < 0.5:
            kind = "scenario"
            variant = {"yaml": rng.choice(SCENARIOS), "lazy": rng.random() < 0.5, "start": rng.choice([0, 6 * 3600, 8 * 3600, 17 * 3600]), "end": 10 ** 7,
                       "dt": rng.choice([30, 60, 120]), "timeout": rng.choice([600, 120]), "n": rng.randint(40, 200)}
            outs = [_run("harness.seedrun", [json.dumps(variant)], hs) for hs in seeds]
            ref = outs[0]
            for hs, o in zip(seeds[1:], outs[1:]):
                for i, (a, b) in enumerate(zip(ref["steps"], o["steps"])):
                    if a != b:
                        what = "entity states" if a[0] != b[0] else "reported events"
                        msgs.append(f"C01/hash-seed| {variant['yaml']} from {variant['start']} (dt {variant['dt']}): {what} after step {i} differ between PYTHONHASHSEED=0 and ={hs}")
                        break
                if ref["summary"] != o["summary"]:
                    msgs.append(f"C01/hash-seed| {variant['yaml']}: summary statistics differ between PYTHONHASHSEED=0 and ={hs}")
            size = variant["n"]
            meta = {"kind": kind, **variant, "hashseeds": seeds}
        else:
            kind = "worlds"
            wseed, count = rng.randrange(10 ** 6), 10
            outs = [_run("harness.seedfn", [str(wseed), str(count)], hs) for hs in seeds]
            ref = outs[0]
            for hs, o in zip(seeds[1:], outs[1:]):
                for wa, wb in zip(ref, o):
                    if wa["steps"] != wb["steps"] or wa["error"] != wb["error"]:
                        i = next((i for i, (a, b) in enumerate(zip(wa["steps"], wb["steps"])) if a != b), -1)
                        msgs.append(f"C01/hash-seed| generated world {wa['world']} of seed {wseed}: result of StepSimulation.update differs at step {i} between PYTHONHASHSEED=0 and ={hs}")
                        break
            errs = [w["error"] for w in ref if w["error"]]
            if errs:
                msgs.append(f"C01/run-stopped| {errs[0]}")
            size = sum(len(w["steps"]) for w in ref)
            meta = {"kind": kind, "world_seed": wseed, "worlds": count, "hashseeds": seeds}
    except Exception as e:
        raised = f"{type(e).__name__}: {e}"[:400]
        size, meta = 0, {"kind": "error"}
    return {"op": "noop", "id": f"x{k}", "pyMsgs": msgs, "raised": raised, "size": size, "meta": meta}


def worker(args) -> Dict[str, Any]:
    seed, count = args
    rng = random.Random(seed)
    recs = [gen_case(rng, seed * 100000 + i) for i in range(count)]
    findings = []
    shapes = set()
    for r in recs:
        shapes.add((r["meta"].get("kind"), r["meta"].get("yaml"), r["meta"].get("dt"), r["meta"].get("lazy")))
        if r["raised"]:
            findings.append({"id": r["id"], "kind": "driver-error", "record": r, "text": [r["raised"]]})
        if r["pyMsgs"]:
            findings.append({"id": r["id"], "kind": "mon", "record": r, "text": r["pyMsgs"][:6]})
    return {"n": len(recs), "steps": sum(r["size"] for r in recs) * 3, "rows": 3 * len(recs), "findings": fw.pick(findings, 20), "n_findings": len(findings),
            "shapes": sorted(shapes, key=str), "sample": recs[0]["meta"]}
