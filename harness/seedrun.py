"""One whole run in this process, printed as canonical per-step digests (C01). Invoked by
harness/hashseed.py in separate interpreters with different PYTHONHASHSEED values:

    PYTHONHASHSEED=<k> python -m harness.seedrun '<variant json>'

Output: one JSON object {"steps": [[state digest, events digest], ...], "summary": digest,
"detail": {...}} where every digest is independent of hash order by construction (maps and sets are
sorted, random uuid4 tags are dropped)."""
from __future__ import annotations

import contextlib
import dataclasses
import hashlib
import io
import json
import logging
import os
import sys
import uuid
from typing import Any

import immutables


def canon(x: Any, depth: int = 0) -> Any:
    if depth > 40:
        return "…"
    if x is None or isinstance(x, (bool, int, str)):
        return x
    if isinstance(x, float):
        return repr(x)
    if isinstance(x, uuid.UUID):
        return "uuid"
    if isinstance(x, (immutables.Map, dict)):
        return {"map": sorted(([canon(k, depth + 1), canon(v, depth + 1)] for k, v in x.items()), key=lambda p: json.dumps(p[0], sort_keys=True, default=str))}
    if isinstance(x, (set, frozenset)):
        return {"set": sorted((canon(v, depth + 1) for v in x), key=lambda p: json.dumps(p, sort_keys=True, default=str))}
    if dataclasses.is_dataclass(x) and not isinstance(x, type):
        return {type(x).__name__: [[f.name, canon(getattr(x, f.name), depth + 1)] for f in dataclasses.fields(x) if f.name != "instance_id"]}
    if isinstance(x, tuple) and hasattr(x, "_fields"):
        return {type(x).__name__: [[f, canon(getattr(x, f), depth + 1)] for f in x._fields if f not in ("road_network",)]}
    if isinstance(x, (list, tuple)):
        return [canon(v, depth + 1) for v in x]
    if hasattr(x, "name") and hasattr(x, "value") and type(x).__module__ != "builtins":
        return str(x)
    return f"<{type(x).__name__}>"


def event_value(key: str, v: Any, uuid_re) -> Any:
    """what C01 lets differ: random uuid4 tags, and the print order of a set-valued field"""
    if "membership" in key or key == "fleet_id":
        if hasattr(v, "memberships"):
            return sorted(map(str, v.memberships))
        if isinstance(v, (list, tuple, set, frozenset)):
            return sorted(map(str, v))
        if isinstance(v, str):
            return sorted(v.split(","))
    if isinstance(v, (str, uuid.UUID)):
        return uuid_re.sub("uuid", str(v))
    return v


def digest(x: Any) -> str:
    return hashlib.sha256(json.dumps(x, sort_keys=True, default=str).encode()).hexdigest()[:20]


def state_canon(sim) -> Any:
    return {"time": int(sim.sim_time), "vehicles": canon(sim.vehicles), "stations": canon(sim.stations), "bases": canon(sim.bases),
            "requests": canon(sim.requests), "idx": [canon(m) for m in (sim.v_locations, sim.v_search, sim.r_locations, sim.r_search,
                                                                          sim.s_locations, sim.s_search, sim.b_locations, sim.b_search)]}


def main() -> None:
    variant = json.loads(sys.argv[1])
    logging.disable(logging.CRITICAL)
    os.environ["TQDM_DISABLE"] = "1"
    real_out = sys.stdout
    with contextlib.redirect_stdout(io.StringIO()), contextlib.redirect_stderr(io.StringIO()):
        from nrel.hive.app import hive_cosim

        from .cosim import _UUID, build

        import shutil
        import tempfile

        work = os.path.join(os.path.dirname(os.path.dirname(os.path.abspath(__file__))), ".work", "tmp")
        os.makedirs(work, exist_ok=True)
        out = tempfile.mkdtemp(prefix="seedrun", dir=work)
        variant = dict(variant, out=out)
        rp, cap = build(variant)
        steps = []
        detail = {}
        for k in range(variant["n"]):
            before = len(cap.flushes)
            rp = hive_cosim.crank(rp, 1).runner_payload
            evs = []
            for fl in cap.flushes[before:]:
                for r in fl:
                    evs.append(json.dumps([r.report_type.name, canon({kk: event_value(kk, vv, _UUID) for kk, vv in r.report.items()})],
                                          sort_keys=True, default=str))
            # "the order of lines written within one time step may differ": a multiset per step
            sc = state_canon(rp.s)
            steps.append([digest(sc), digest(sorted(evs))])
            if variant.get("detail") == k:
                detail = {"state": sc, "events": sorted(evs)}
        summary = rp.e.reporter.get_summary_stats(rp)
        shutil.rmtree(out, ignore_errors=True)
    real_out.write(json.dumps({"steps": steps, "summary": digest(canon(summary)), "detail": detail, "hashseed": os.environ.get("PYTHONHASHSEED")}) + "\n")


if __name__ == "__main__":
    main()
