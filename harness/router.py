"""Function-level layer for the routers (C13, C14): generated strongly connected street graphs
(strongly varying speeds, realistic and arbitrary lengths) are turned into real `OSMRoadNetwork`s;
position pairs of every kind (same link both ways round, adjacent links, opposite directions, link
ends and interiors, snapped random cells) are routed with `networkx.astar_path` observed. Lean
rebuilds the route from the observed junction path with the model of the repository's own code and
compares it, evaluates the C13 shape predicate on the implementation's route, and accepts the
junction path as fastest only with node potentials (exact Dijkstra of the harness). The straight-
line network and `position_from_geoid` are exercised the same way."""
from __future__ import annotations

from . import framework as fw  # noqa: E402

import copy
import heapq
import logging
import random
from fractions import Fraction
from typing import Any, Dict, List, Optional

import h3
import networkx as nx

from nrel.hive.model.entity_position import EntityPosition
from nrel.hive.model.roadnetwork.haversine_roadnetwork import HaversineRoadNetwork
from nrel.hive.model.roadnetwork.osm import osm_roadnetwork as osm_mod
from nrel.hive.model.roadnetwork.osm.osm_roadnetwork import OSMRoadNetwork
from nrel.hive.util.h3_ops import H3Ops

from .encode import Interner, enc_pos, enc_route, q


def ladder_graph(rng: random.Random) -> nx.MultiDiGraph:
    """two parallel two-way streets of very short blocks joined by slow rungs: the fastest path
    often steps sideways to the faster street and back - an A* estimate that is only slightly too
    large already picks the direct, slower street here"""
    g = nx.MultiDiGraph()
    k = rng.randint(4, 9)
    block_m = rng.choice([8.0, 13.5, 14.0, 17.3, 23.0, 24.5, 34.4, 60.0])
    lat0, lon0 = 39.75 + rng.uniform(-0.02, 0.02), -104.98 + rng.uniform(-0.02, 0.02)
    dlat = block_m / 111320.0
    dlon = block_m / (111320.0 * 0.7688)
    direct, parallel, rung = rng.choice([(50.0, 60.0, 30.0), (40.0, 60.0, 30.0), (50.0, 55.0, 25.0)])
    for i in range(k + 1):
        g.add_node(i, y=lat0, x=lon0 + i * dlon)
        g.add_node(100 + i, y=lat0 + dlat, x=lon0 + i * dlon)

    def add(i: int, j: int, speed: float):
        a, b = g.nodes[i], g.nodes[j]
        crow_m = 1000.0 * _exact_crow_km(a["y"], a["x"], b["y"], b["x"])
        g.add_edge(i, j, length=max(1.0, crow_m), speed_kmph=speed)
        g.add_edge(j, i, length=max(1.0, crow_m), speed_kmph=speed)

    for i in range(k):
        add(i, i + 1, direct)
        add(100 + i, 100 + i + 1, parallel)
    for i in range(k + 1):
        add(i, 100 + i, rung)
    return nx.convert_node_labels_to_integers(g, ordering="sorted")


def _exact_crow_km(lat1: float, lon1: float, lat2: float, lon2: float) -> float:
    """haversine distance between the cell centres of two coordinates, computed here (not by H3Ops)"""
    from math import asin, cos, radians, sin, sqrt

    (lat1, lon1), (lat2, lon2) = h3.h3_to_geo(h3.geo_to_h3(lat1, lon1, 15)), h3.h3_to_geo(h3.geo_to_h3(lat2, lon2, 15))
    lat1, lon1, lat2, lon2 = map(radians, (lat1, lon1, lat2, lon2))
    d = sin((lat2 - lat1) * 0.5) ** 2 + cos(lat1) * cos(lat2) * sin((lon2 - lon1) * 0.5) ** 2
    return 2 * 6371 * asin(sqrt(d))


def gen_graph(rng: random.Random, realistic: bool = False) -> nx.MultiDiGraph:
    """`realistic`: every link at least as long as the straight line between its ends"""
    if rng.random() < 0.15:
        return ladder_graph(rng)
    g = nx.MultiDiGraph()
    n = rng.randint(3, 12)
    lat0, lon0 = 39.75 + rng.uniform(-0.02, 0.02), -104.98 + rng.uniform(-0.02, 0.02)
    spread = rng.choice([0.004, 0.01, 0.03])
    for i in range(n):
        g.add_node(i, y=lat0 + rng.uniform(-spread, spread), x=lon0 + rng.uniform(-spread, spread))
    arbitrary = rng.random() < 0.3 and not realistic
    speeds = rng.choice([[30.0], [5.0, 130.0], [5.0, 10.0, 30.0, 60.0, 130.0], [25.0, 40.0, 55.0], [90.0, 128.0, 137.0, 160.0]])

    def add(i: int, j: int):
        if i == j or g.has_edge(i, j):
            return
        a, b = g.nodes[i], g.nodes[j]
        crow_m = 1000.0 * _exact_crow_km(a["y"], a["x"], b["y"], b["x"])
        length = rng.uniform(20.0, 3000.0) if arbitrary else max(1.0, crow_m * rng.uniform(1.0, 1.7))
        g.add_edge(i, j, length=length, speed_kmph=rng.choice(speeds))

    order = list(range(n))
    rng.shuffle(order)
    for a, b in zip(order, order[1:] + order[:1]):
        add(a, b)                       # a directed ring: strongly connected
        if rng.random() < 0.6:
            add(b, a)                   # the other side of the street
    for _ in range(rng.randint(0, 2 * n)):
        add(rng.randrange(n), rng.randrange(n))
    if not realistic and rng.random() < 0.2:
        # an export that brings its own edge travel times (as osmnx does), faster than length / speed says on some
        # streets, some streets without a speed at all (the network then assumes its default): the search runs on
        # these times, and its estimate must stay below them
        for _u, _v, d in g.edges(data=True):
            base = d["length"] / 1000.0 / d["speed_kmph"] * 3600.0
            d["travel_time"] = base * (rng.choice([1.0, 1.0, 0.7, 0.35, 0.2]) if rng.random() < 0.7 else rng.uniform(0.15, 1.0))
            if rng.random() < 0.4:
                del d["speed_kmph"]
        g.graph["own_times"] = True
    return g


def dijkstra(edges: Dict[int, List], src: int) -> Dict[int, Fraction]:
    dist = {src: Fraction(0)}
    heap = [(Fraction(0), src)]
    while heap:
        d, u = heapq.heappop(heap)
        if d > dist.get(u, d):
            continue
        for v, w in edges.get(u, []):
            nd = d + w
            if v not in dist or nd < dist[v]:
                dist[v] = nd
                heapq.heappush(heap, (nd, v))
    return dist


def gen_case(rng: random.Random, k: int) -> Dict[str, Any]:
    n = Interner(9)
    g = gen_graph(rng)
    g_raw = copy.deepcopy(g)            # the constructor rewrites node and edge attributes in place
    net = OSMRoadNetwork(g, default_speed_kmph=40.0)
    links = net.link_helper.links
    edges: Dict[int, List] = {}
    table = []
    for (u, v, data) in net.graph.edges(data=True):
        lid = f"{u}-{v}"
        l = links[lid]
        w = Fraction(data["travel_time"])
        edges.setdefault(u, []).append((v, w))
        table.append({"u": u, "v": v, "time": q(data["travel_time"]),
                      "link": {"id": n.get("link", lid), "start": n.cell(l.start), "stop": n.cell(l.end), "dist": q(l.distance_km), "speed": q(l.speed_kmph)}})
    link_ids = sorted(links.keys())

    def pos_on(lid: str, where: str) -> EntityPosition:
        l = links[lid]
        line = list(h3.h3_line(l.start, l.end))
        if where == "start":
            c = line[0]
        elif where == "end":
            c = line[-1]
        else:
            c = rng.choice(line)
        return EntityPosition(lid, c)

    def rev(lid: str) -> Optional[str]:
        a, b = lid.split("-")
        r = f"{b}-{a}"
        return r if r in links else None

    queries = []
    paths: List[List[int]] = []
    real_astar = nx.astar_path

    def spy(*a, **kw):
        p = real_astar(*a, **kw)
        paths.append(list(p))
        return p

    osm_mod.nx.astar_path = spy
    raised = None
    try:
        for _ in range(rng.randint(6, 14)):
            kind = rng.choice(["random", "random", "same-ahead", "same-behind", "same-cell", "opposite", "adjacent", "ends", "snapped"])
            a = rng.choice(link_ids)
            if kind == "random":
                o, d = pos_on(a, "any"), pos_on(rng.choice(link_ids), "any")
            elif kind in ("same-ahead", "same-behind", "same-cell"):
                line = list(h3.h3_line(links[a].start, links[a].end))
                i, j = sorted((rng.randrange(len(line)), rng.randrange(len(line))))
                if kind == "same-cell":
                    j = i
                if kind == "same-behind":
                    i, j = j, i
                o, d = EntityPosition(a, line[i]), EntityPosition(a, line[j])
            elif kind == "opposite":
                b = rev(a)
                o, d = pos_on(a, "any"), pos_on(b or rng.choice(link_ids), "any")
            elif kind == "adjacent":
                nxt = [l for l in link_ids if l.split("-")[0] == a.split("-")[1]]
                o, d = pos_on(a, "any"), pos_on(rng.choice(nxt or link_ids), "any")
            elif kind == "ends":
                o, d = pos_on(a, rng.choice(["start", "end"])), pos_on(rng.choice(link_ids), rng.choice(["start", "end"]))
            else:
                nodes = net.graph.nodes
                cs = []
                for _ in range(2):
                    l = links[rng.choice(link_ids)]
                    lat, lon = h3.h3_to_geo(rng.choice(list(h3.h3_line(l.start, l.end))))
                    cs.append(h3.geo_to_h3(lat + rng.uniform(-0.0005, 0.0005), lon + rng.uniform(-0.0005, 0.0005), 15))
                o, d = net.position_from_geoid(cs[0]), net.position_from_geoid(cs[1])
                if o is None or d is None:
                    continue
            paths.clear()
            route = net.route(o, d)
            node_path = paths[-1] if paths else []
            if not node_path and len(route) >= 2:
                # the search was not observed (a shortcut around it, say): the junction path the route itself takes
                try:
                    node_path = [int(route[0].link_id.split("-")[1])] + [int(l.link_id.split("-")[1]) for l in route[1:-1]]
                except Exception:
                    node_path = []
            # the junction path the RETURNED route itself takes (what a vehicle will drive): certified too
            route_path: List[int] = []
            if len(route) >= 2:
                try:
                    route_path = [int(route[0].link_id.split("-")[1])] + [int(l.link_id.split("-")[1]) for l in route[1:-1]]
                except Exception:
                    route_path = []
            pot = []
            slack = "0"
            if node_path:
                dist = dijkstra(edges, node_path[0])
                pot = [[v, q(x)] for v, x in sorted(dist.items())]
                slack = q(Fraction(1, 10 ** 9) * (dist.get(node_path[-1], Fraction(0)) + 1))
            queries.append({"kind": kind, "o": enc_pos(n, o), "d": enc_pos(n, d), "route": enc_route(n, route), "nodePath": node_path, "routePath": route_path,
                            "pot": pot, "slack": slack, "searched": bool(node_path)})
    except Exception as e:
        raised = f"{type(e).__name__}: {e}"[:300]
    finally:
        osm_mod.nx.astar_path = real_astar
    # ---- snapping
    snaps = []
    for _ in range(8):
        l = links[rng.choice(link_ids)]
        lat, lon = h3.h3_to_geo(rng.choice(list(h3.h3_line(l.start, l.end))))
        c = h3.geo_to_h3(lat + rng.uniform(-0.002, 0.002), lon + rng.uniform(-0.002, 0.002), 15)
        p = net.position_from_geoid(c)
        ok = p is not None and p.link_id in links and p.geoid in set(h3.h3_line(links[p.link_id].start, links[p.link_id].end))
        snaps.append({"cell": n.cell(c), "ok": bool(ok), "link": None if p is None else n.get("link", p.link_id)})
    # ---- snapping on a street graph with parallel roadways (two edges between the same junctions: the
    # link table has one entry per link id, the spatial index one per graph edge)
    if rng.random() < 0.5 and raised is None:
        try:
            g2 = g_raw
            pairs = sorted({(u, v) for (u, v) in g2.edges()})
            for (u, v) in rng.sample(pairs, min(len(pairs), rng.randint(1, 3))):
                d0 = g2.get_edge_data(u, v)[0]
                g2.add_edge(u, v, length=d0["length"] * rng.uniform(1.0, 1.3), speed_kmph=d0.get("speed_kmph", 40.0))
            net2 = OSMRoadNetwork(g2, default_speed_kmph=40.0)
            links2 = net2.link_helper.links
            ids2 = sorted(links2.keys())
            for i in range(10):
                l = links2[rng.choice(ids2)]
                line = list(h3.h3_line(l.start, l.end))
                c = rng.choice(line) if i % 2 == 0 else h3.geo_to_h3(*[x + rng.uniform(-0.001, 0.001) for x in h3.h3_to_geo(rng.choice(line))], 15)
                p = net2.position_from_geoid(c)
                ok = p is not None and p.link_id in links2 and p.geoid in set(h3.h3_line(links2[p.link_id].start, links2[p.link_id].end))
                snaps.append({"cell": n.cell(c), "ok": bool(ok), "link": None if p is None else n.get("link", p.link_id)})
        except Exception as e:
            raised = f"parallel-edge graph: {type(e).__name__}: {e}"[:300]
    # ---- the straight-line network
    hav = HaversineRoadNetwork(sim_h3_resolution=15)
    hqueries = []
    for i in range(6):
        l1, l2 = links[rng.choice(link_ids)], links[rng.choice(link_ids)]
        o = hav.position_from_geoid(l1.start)
        d = hav.position_from_geoid(rng.choice([l2.end, l1.start]))
        if i >= 3 and l1.start != l1.end:
            # a vehicle under way on the straight-line network: somewhere on the link a-b, routed to the
            # end of that very link, to another cell of it, or elsewhere
            line = list(h3.h3_line(l1.start, l1.end))
            lid = f"{l1.start}-{l1.end}"
            o = EntityPosition(lid, rng.choice(line))
            d = rng.choice([EntityPosition(lid, l1.end), EntityPosition(lid, rng.choice(line)), d])
        hqueries.append({"o": enc_pos(n, o), "d": enc_pos(n, d), "route": enc_route(n, hav.route(o, d))})
    return {"op": "router", "id": f"g{k}", "net": table, "queries": queries, "snaps": snaps, "hqueries": hqueries, "raised": raised,
            "own_times": bool(g_raw.graph.get("own_times", False)),
            "meta": {"own_times": bool(g_raw.graph.get("own_times", False)), "nodes": g.number_of_nodes(), "links": len(table), "speeds": sorted({d["speed_kmph"] for _, _, d in g.edges(data=True)}),
                     "kinds": sorted({x["kind"] for x in queries})}}


def worker(args) -> Dict[str, Any]:
    logging.disable(logging.CRITICAL)
    from .lean import run_driver

    seed, count = args
    rng = random.Random(seed)
    recs = [gen_case(rng, seed * 100000 + i) for i in range(count)]
    outs = run_driver(recs)
    findings = []
    shapes = set()
    n_q = 0
    for r, o in zip(recs, outs):
        n_q += len(r["queries"]) + len(r["hqueries"]) + len(r["snaps"])
        for x in r["queries"]:
            shapes.add((x["kind"], min(len(x["nodePath"]), 4), min(len(x["route"]), 5), len(r["meta"]["speeds"]) > 1))
        if r["raised"]:
            findings.append({"id": r["id"], "kind": "mon", "record": r, "text": [f"C13/run-stopped| the router raised: {r['raised']}"]})
        if "error" in o:
            findings.append({"id": r["id"], "kind": "driver-error", "text": [o["error"][:300]], "record": r})
        else:
            if o.get("diff"):
                findings.append({"id": r["id"], "kind": "diff", "text": o["diff"][:8], "record": r})
            if o.get("mon"):
                findings.append({"id": r["id"], "kind": "mon", "text": o["mon"][:8], "record": r})
    s = recs[0]
    return {"n": len(recs), "steps": n_q, "rows": sum(len(r["net"]) for r in recs), "findings": fw.pick(findings, 20), "n_findings": len(findings),
            "shapes": sorted(shapes, key=str), "sample": {"meta": s["meta"], "query": {k: v for k, v in s["queries"][0].items() if k != "pot"} if s["queries"] else None}}
