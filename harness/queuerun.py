"""Whole steps under the BUILT-IN generators on charging queues (C18): generated worlds in which every
vehicle stands at the one station (one plug type, 1-2 plugs) and wants to charge; the real
StepSimulation.update (Dispatcher + ChargingFleetManager + drivers + instruction stack + application +
vehicle updates) runs for 10-16 steps. Between two consecutive states: a vehicle that was waiting in
a queue and is now charging there must not have left behind a vehicle that joined that queue earlier
(by enqueue time, ties by id) and is still waiting. (Under the built-in generators a queued vehicle
is never instructed, so this holds step by step; the adversarial histories judge the update phase
alone.)"""
from __future__ import annotations

from . import framework as fw  # noqa: E402

import logging
import random
from typing import Any, Dict, List

from nrel.hive.dispatcher.instruction_generator.charging_fleet_manager import ChargingFleetManager
from nrel.hive.dispatcher.instruction_generator.dispatcher import Dispatcher
from nrel.hive.state.simulation_state import simulation_state_ops
from nrel.hive.state.simulation_state.update.step_simulation import StepSimulation
from nrel.hive.state.vehicle_state.charge_queueing import ChargeQueueing
from nrel.hive.state.vehicle_state.charging_station import ChargingStation

from .world import World


def overtaken(prev, sim) -> List[str]:
    msgs = []
    for vid, v in sorted(sim.vehicles.items()):
        st, p = v.vehicle_state, prev.vehicles[vid].vehicle_state
        if isinstance(st, ChargingStation) and isinstance(p, ChargeQueueing) and (p.station_id, p.charger_id) == (st.station_id, st.charger_id):
            for uid, u in sorted(sim.vehicles.items()):
                q, q0 = u.vehicle_state, prev.vehicles[uid].vehicle_state
                if (uid != vid and isinstance(q, ChargeQueueing) and isinstance(q0, ChargeQueueing)
                        and (q.station_id, q.charger_id) == (st.station_id, st.charger_id) and q.enqueue_time == q0.enqueue_time
                        and (int(q0.enqueue_time), uid) < (int(p.enqueue_time), vid)):
                    msgs.append(f"C18/overtaken-whole-step| in the step ending at {int(sim.sim_time)} vehicle {vid} (queued at {int(p.enqueue_time)}) left the queue of "
                                f"{st.station_id}/{st.charger_id} to charge while vehicle {uid} (queued at {int(q0.enqueue_time)}) is left waiting")
    return msgs


def gen_case(rng: random.Random, k: int) -> Dict[str, Any]:
    w = World(random.Random(rng.getrandbits(48)), n_veh=(4, 7), search_res=7, queue_scenario=True, dt_choices=(60, 300, 600))
    env = w.env
    env = env._replace(config=env.config._replace(dispatcher=env.config.dispatcher._replace(
        charging_range_km_threshold=rng.choice([400.0, 150.0]), charging_range_km_soft_threshold=400.0,
        ideal_fastcharge_soc_limit=rng.choice([0.8, 0.6, 1.0]),
        charging_search_type=rng.choice(list(type(env.config.dispatcher.charging_search_type))))))
    step_fn = StepSimulation.from_tuple((Dispatcher(env.config.dispatcher), ChargingFleetManager(env.config.dispatcher)))
    sim = w.sim0
    msgs: List[str] = []
    raised = None
    n_steps = 0
    queued_steps = 0
    for _ in range(rng.randint(10, 18)):
        if rng.random() < 0.3:
            sim = simulation_state_ops.add_request_safe(sim, w.new_request(sim)).unwrap()
        prev = sim
        env.reporter.reports = []
        try:
            sim, step_fn = step_fn.update(sim, env)
        except Exception as e:
            raised = f"{type(e).__name__}: {e}"[:200]
            break
        n_steps += 1
        queued_steps += any(isinstance(v.vehicle_state, ChargeQueueing) for v in sim.vehicles.values())
        msgs += overtaken(prev, sim)
    return {"op": "noop", "id": f"qr{k}", "pyMsgs": msgs[:6], "raised": raised, "steps": n_steps, "queued_steps": queued_steps}


def worker(args) -> Dict[str, Any]:
    logging.disable(logging.CRITICAL)
    seed, count = args
    rng = random.Random(seed)
    recs = [gen_case(rng, seed * 100000 + i) for i in range(count)]
    findings = []
    shapes = set()
    for r in recs:
        shapes.add((min(r["queued_steps"], 5), r["raised"] is not None))
        if r["raised"]:
            findings.append({"id": r["id"], "kind": "mon", "record": r, "text": [f"C18/run-stopped| {r['raised']}"]})
        if r["pyMsgs"]:
            findings.append({"id": r["id"], "kind": "mon", "record": r, "text": r["pyMsgs"]})
    return {"n": len(recs), "steps": sum(r["steps"] for r in recs), "rows": sum(r["queued_steps"] for r in recs), "findings": fw.pick(findings, 20),
            "n_findings": len(findings), "shapes": sorted(shapes, key=str), "sample": {k: recs[0][k] for k in ("steps", "queued_steps")}}
