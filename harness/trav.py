"""Function-level correspondence for `routetraversal.traverse` (C06): generated routes × step
lengths through the real function with a stub network that only answers `link_from_link_id`."""
from __future__ import annotations

from . import framework as fw  # noqa: E402

import logging
import random
from typing import Any, Dict, List

import h3

from nrel.hive.model.roadnetwork.link import Link
from nrel.hive.model.roadnetwork.linktraversal import LinkTraversal
from nrel.hive.model.roadnetwork.routetraversal import traverse
from nrel.hive.util.h3_ops import H3Ops

from .encode import Interner, enc_route, q
from .record import Oracle, recording


class StubNetwork:
    """ground-truth link table: id → Link (speed may differ from the route estimate)"""

    sim_h3_resolution = 15

    def __init__(self, links: Dict[str, Link]):
        self.links = links

    def link_from_link_id(self, link_id):
        return self.links.get(link_id)

    def geoid_within_geofence(self, geoid):
        return True


_TEMPLATE = None


def _move_probe(route, dt: int, net) -> Dict[str, Any]:
    """the same route and step through the real `vehicle_state_ops.move`: a vehicle with a full
    battery in Repositioning(route) standing at the start of the route"""
    global _TEMPLATE
    from dataclasses import replace

    from nrel.hive.model.entity_position import EntityPosition
    from nrel.hive.model.sim_time import SimTime
    from nrel.hive.state.simulation_state import simulation_state_ops as ops
    from nrel.hive.state.simulation_state.simulation_state import SimulationState
    from nrel.hive.state.vehicle_state.repositioning import Repositioning
    from nrel.hive.state.vehicle_state.vehicle_state_ops import move

    if _TEMPLATE is None:
        from .world import World

        w = World(random.Random(1), n_veh=(2, 2), with_ice=False, with_humans=False, with_fleets=False)
        _TEMPLATE = (w.env, next(v for _, v in sorted(w.sim0.vehicles.items())))
    env, tv = _TEMPLATE
    mech = env.mechatronics[tv.mechatronics_id]
    res = h3.h3_get_resolution(route[0].start)
    sim = SimulationState(road_network=net, sim_time=SimTime.build(0), sim_timestep_duration_seconds=dt,
                          sim_h3_location_resolution=res, sim_h3_search_resolution=min(9, res))
    veh = replace(tv, position=EntityPosition(route[0].link_id, route[0].start), energy=mech.initial_energy(1.0),
                  vehicle_state=Repositioning.build(tv.id, tuple(route)), distance_traveled_km=0.0)
    sim = ops.add_vehicle_safe(sim, veh).unwrap()
    env.reporter.reports = []
    err, s2 = move(sim, env, tv.id)
    if err is not None:
        return {"kind": "error"}
    if s2 is None:
        return {"kind": "none"}
    v2 = s2.vehicles[tv.id]
    st = v2.vehicle_state
    return {"kind": "ok", "state": type(st).__name__, "link": v2.position.link_id, "cell": v2.position.geoid, "km": v2.distance_traveled_km,
            "route": getattr(st, "route", None)}


def gen_case(rng: random.Random, k: int) -> Dict[str, Any]:
    n = Interner(9)
    n_links = rng.choice([1, 1, 2, 3, 4, 6])
    lat, lon = 39.75 + rng.uniform(-0.02, 0.02), -104.98 + rng.uniform(-0.02, 0.02)
    res = rng.choice([15, 15, 12])
    cells = [h3.geo_to_h3(lat, lon, res)]
    for _ in range(n_links):
        r = rng.random()
        if r < 0.12:
            cells.append(cells[-1])                       # degenerate link
        elif r < 0.18 and len(cells) > 1:
            cells.append(cells[0])                        # back to the start (closed routes)
        else:
            step = rng.choice([0.00002, 0.0003, 0.002, 0.01, 0.05])
            lat += rng.uniform(-step, step)
            lon += rng.uniform(-step, step)
            cells.append(h3.geo_to_h3(lat, lon, res))
    route = []
    truth = {}
    for i in range(n_links):
        a, b = cells[i], cells[i + 1]
        lid = f"L{i}"
        speed = rng.choice([3.0, 11.5, 25.0, 40.0, 63.7, 100.0])
        d = H3Ops.great_circle_distance(a, b) * rng.choice([1.0, 1.0, 1.37])
        route.append(LinkTraversal(lid, a, b, d, speed))
        r = rng.random()
        if r < 0.04:
            continue                                      # unknown to the network → error
        gt_speed = speed if r < 0.7 else rng.choice([5.0, 30.0, 80.0])
        truth[lid] = Link(lid, a, b, d, gt_speed)
    if rng.random() < 0.1 and n_links >= 2:
        # a disconnected estimate (the function does not validate connectivity)
        l = route[1]
        route[1] = l._replace(start=cells[0])
    dt = rng.choice([1, 7, 30, 60, 90, 3600])
    net = StubNetwork(truth)
    oracle = Oracle()
    with recording(oracle):
        # the stub is not a patched class: record its answers here
        err, res_ = traverse(tuple(route), dt, net)
    for lid, l in truth.items():
        oracle.link_lookups[lid] = l
    enc = oracle.encode(n)
    rec: Dict[str, Any] = {"op": "traverse", "id": f"t{k}", "route": enc_route(n, route), "dt": dt, "oracle": enc,
                           "skip": oracle.boundary_hit, "cellKm": q(h3.edge_length(res, unit="km"))}
    if err is not None:
        rec["kind"] = "error"
    elif res_ is None:
        rec["kind"] = "none"
    else:
        rec["kind"] = "ok"
        rec["experienced"] = enc_route(n, res_.experienced_route)
        rec["remaining"] = enc_route(n, res_.remaining_route)
        rec["km"] = q(res_.traversal_distance_km)
    if res_ is not None and err is None and route:
        try:
            m = _move_probe(tuple(route), dt, net)
        except Exception as e:  # the probe itself must not stop the layer
            m = {"kind": "raise", "error": f"{type(e).__name__}: {e}"[:200]}
        if m["kind"] == "ok" and m["route"] is not None:
            rec["moved"] = {"state": m["state"], "pos": {"link": n.get("link", m["link"]), "cell": n.cell(m["cell"])}, "km": q(m["km"]),
                            "route": enc_route(n, m["route"])}
        else:
            rec["moveKind"] = m["kind"] + (":" + m.get("error", "") if m["kind"] == "raise" else "")
    rec["oracle"]["parent"] = []
    shape = ("empty" if not route else "closed" if route[0].start == route[-1].end else "open",
             rec["kind"], len(rec.get("experienced", [])) > 0, len(rec.get("remaining", [])) > 0,
             any(l.start == l.end for l in route))
    rec["shape"] = list(shape)
    return rec


def worker(args) -> Dict[str, Any]:
    logging.disable(logging.CRITICAL)
    from .lean import run_driver

    seed, count = args
    rng = random.Random(seed)
    recs = [gen_case(rng, seed * 100000 + i) for i in range(count)]
    outs = run_driver(recs)
    findings = []
    shapes = set()
    skipped = 0
    for r, o in zip(recs, outs):
        shapes.add(tuple(r["shape"]) + (r["dt"],))
        if r["skip"]:
            skipped += 1
            continue
        if "error" in o:
            findings.append({"id": r["id"], "kind": "driver-error", "text": [o["error"][:300]], "record": r})
        elif o.get("diff"):
            findings.append({"id": r["id"], "kind": "diff", "text": o["diff"][:8], "record": r})
        if "error" not in o and o.get("mon"):
            findings.append({"id": r["id"], "kind": "mon", "text": o["mon"][:8], "record": r})
    return {"n": len(recs), "findings": fw.pick(findings, 20), "n_findings": len(findings), "shapes": sorted(shapes),
            "skipped": skipped, "sample": {k: recs[0][k] for k in ("route", "dt", "kind")}}
