"""./check Cxx [--tier quick|thorough] [--replay file]"""
from __future__ import annotations

import argparse
import logging
import sys
import traceback
import warnings

warnings.filterwarnings("ignore")
logging.disable(logging.CRITICAL)


def main() -> int:
    ap = argparse.ArgumentParser()
    ap.add_argument("prop")
    ap.add_argument("--tier", default=None)
    ap.add_argument("--replay", default=None)
    a = ap.parse_args()
    from . import framework as fw
    from . import checks

    tier = a.tier or fw.tier_from_env()
    if tier not in ("quick", "thorough"):
        tier = "quick"
    fw.CURRENT_TIER = tier
    seed = fw.seed_from_env()
    if a.replay:
        from . import replay

        return replay.replay(a.prop, a.replay)
    fn = checks.REGISTRY.get(a.prop)
    if fn is None:
        print(f"no check registered for {a.prop}", file=sys.stderr)
        return 2
    try:
        return fn(tier, seed)
    except Exception:
        text = traceback.format_exc()
        traceback.print_exc()
        where = implementation_frame(text)
        if where is None:
            return 2
        # the implementation raised on a generated input on which it completes on the unchanged tree (every layer
        # handles the exceptions the unchanged code is known to raise): the correspondence no longer checks, and
        # the run that would have looked for a failing input could not be completed
        v = fw.Verdict(a.prop, tier, seed, "proof")
        v.broken(f"correspondence for {a.prop}: the implementation raised out of {where} where the model completes",
                 {"traceback": text[-6000:], "seed": seed, "tier": tier,
                  "how_to_replay": f"VERIF_SEED={seed} ./check {a.prop} --tier {tier}"})
        return v.finish()


def implementation_frame(text: str):
    """the innermost frame of the (remote, if any) traceback that is neither the interpreter's library nor a
    third-party package; returned when it lies in /repo, i.e. when the implementation itself raised"""
    import re

    first = text.split("The above exception was the direct cause", 1)[0]
    frames = re.findall(r'File "([^"]+)", line (\d+), in (\S+)', first)
    for path, line, fn_ in reversed(frames):
        if "site-packages" in path or "/lib/python" in path or path.startswith("<"):
            continue
        if path.startswith("/repo/"):
            return f"{path}:{line} ({fn_})"
        return None
    return None


if __name__ == "__main__":
    sys.exit(main())
