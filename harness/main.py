"""./check Cxx [--tier quick|thorough] [--replay file]"""
from __future__ import annotations

import argparse
import logging
import sys
import traceback
import warnings

warnings.filterwarnings("ignore")
logging.disable(logging.CRITICAL)


def main() -> int:
    ap = argparse.ArgumentParser()
    ap.add_argument("prop")
    ap.add_argument("--tier", default=None)
    ap.add_argument("--replay", default=None)
    a = ap.parse_args()
    from . import framework as fw
    from . import checks

    tier = a.tier or fw.tier_from_env()
    if tier not in ("quick", "thorough"):
        tier = "quick"
    fw.CURRENT_TIER = tier
    seed = fw.seed_from_env()
    if a.replay:
        from . import replay

        return replay.replay(a.prop, a.replay)
    fn = checks.REGISTRY.get(a.prop)
    if fn is None:
        print(f"no check registered for {a.prop}", file=sys.stderr)
        return 2
    try:
        return fn(tier, seed)
    except Exception:
        traceback.print_exc()
        return 2


if __name__ == "__main__":
    sys.exit(main())
