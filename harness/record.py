"""Capture of oracle answers (routing, link look-ups, H3 geometry) and of reports, by wrapping
functions of the running implementation from the harness process. No source hooks in /repo."""
from __future__ import annotations

import contextlib
from typing import Any, Dict, List

from nrel.hive.util.h3_ops import H3Ops
from nrel.hive.model.roadnetwork.haversine_roadnetwork import HaversineRoadNetwork
from nrel.hive.model.roadnetwork.osm.osm_roadnetwork import OSMRoadNetwork
from nrel.hive.reporting.handler.handler import Handler
from nrel.hive.reporting.report_type import ReportType

from .encode import Interner, enc_pos, enc_route, q


class Oracle:
    """answers observed since the last `reset`"""

    def __init__(self):
        self.reset()
        self.near_boundary = 0

    def reset(self):
        self.routes: List[Any] = []
        self.link_lookups: Dict[str, Any] = {}
        self.points: List[Any] = []
        self.gc: Dict[Any, float] = {}
        self.boundary_hit = False

    def encode(self, n: Interner) -> Dict[str, Any]:
        routes = [{"src": enc_pos(n, s), "dst": enc_pos(n, d), "route": enc_route(n, r)} for s, d, r in self.routes]
        link_end = []
        link_speed = []
        for lid, ans in self.link_lookups.items():
            k = n.get("link", lid)
            if ans == "raise":
                link_end.append({"link": k, "kind": "raise"})
            elif ans is None:
                link_end.append({"link": k, "kind": "none"})
            else:
                link_end.append({"link": k, "kind": "ok", "pos": {"link": n.get("link", ans.link_id), "cell": n.cell(ans.end)}})
                link_speed.append([k, q(ans.speed_kmph)])
        points = [
            {"link": n.get("link", l.link_id), "start": n.cell(l.start), "stop": n.cell(l.end), "t": int(t), "cell": n.cell(c),
             "dist": q(l.distance_km), "speed": q(l.speed_kmph)}
            for l, t, c in self.points
        ]
        gc = [{"a": n.cell(a), "b": n.cell(b), "d": q(d)} for (a, b), d in self.gc.items()]
        return {
            "routes": routes,
            "linkEnd": link_end,
            "linkSpeed": link_speed,
            "pointAlong": points,
            "gc": gc,
            "parent": n.parent_table(),
            "fence": None,
        }


@contextlib.contextmanager
def recording(oracle: Oracle):
    """patch the implementation's oracle functions for the duration of the block"""
    saved = []

    def patch(obj, name, new):
        saved.append((obj, name, obj.__dict__[name]))
        setattr(obj, name, new)

    def wrap_route(cls):
        orig = cls.__dict__["route"]

        def route(self, origin, destination):
            r = orig(self, origin, destination)
            oracle.routes.append((origin, destination, r))
            return r

        patch(cls, "route", route)

    def wrap_link(cls):
        orig = cls.__dict__["link_from_link_id"]

        def link_from_link_id(self, link_id):
            try:
                l = orig(self, link_id)
            except Exception:
                oracle.link_lookups[link_id] = "raise"
                raise
            oracle.link_lookups[link_id] = l
            return l

        patch(cls, "link_from_link_id", link_from_link_id)

    for cls in (HaversineRoadNetwork, OSMRoadNetwork):
        wrap_route(cls)
        wrap_link(cls)

    orig_pal = H3Ops.__dict__["point_along_link"].__func__
    orig_gc = H3Ops.__dict__["great_circle_distance"].__func__

    def point_along_link(cls, link, available_time_seconds):
        c = orig_pal(cls, link, available_time_seconds)
        oracle.points.append((link, available_time_seconds, c))
        return c

    def great_circle_distance(cls, a, b):
        d = orig_gc(cls, a, b)
        oracle.gc[(a, b)] = d
        return d

    patch(H3Ops, "point_along_link", classmethod(point_along_link))
    patch(H3Ops, "great_circle_distance", classmethod(great_circle_distance))

    # travel-time truncation boundary: int(dist/speed*3600) in floats vs exact arithmetic
    from nrel.hive.model.roadnetwork import linktraversal as lt

    orig_tut = lt.traverse_up_to

    def traverse_up_to(link, available_time_seconds):
        if link is not None and link.start != link.end and link.speed_kmph:
            x = link.distance_km / link.speed_kmph * 3600
            if abs(x - round(x)) < 1e-6 and x != 0:
                oracle.boundary_hit = True
        return orig_tut(link, available_time_seconds)

    from nrel.hive.model.roadnetwork import routetraversal as rt

    saved.append((rt, "traverse_up_to", rt.traverse_up_to))
    rt.traverse_up_to = traverse_up_to
    try:
        yield oracle
    finally:
        for obj, name, old in reversed(saved):
            setattr(obj, name, old)


class Capture(Handler):
    """a reporter handler that keeps the reports of each flush"""

    def __init__(self):
        self.flushes: List[List[Any]] = []

    def handle(self, reports, runner_payload):
        self.flushes.append(list(reports))

    def close(self, runner_payload):
        pass


def enc_events(n: Interner, reports) -> List[Any]:
    """reports → Hive.Event (only the kinds the model emits)"""
    out = []
    for r in reports:
        t = r.report_type
        d = r.report
        if t == ReportType.ADD_REQUEST_EVENT:
            out.append({"addRequest": {"r": n.get("req", d["request_id"])}})
        elif t == ReportType.CANCEL_REQUEST_EVENT:
            out.append({"cancelRequest": {"r": n.get("req", d["request_id"])}})
        elif t == ReportType.PICKUP_REQUEST_EVENT:
            out.append(
                {
                    "pickup": {
                        "v": n.get("veh", d["vehicle_id"]),
                        "r": n.get("req", d["request_id"]),
                        "fare": q(d["price"]),
                        "wait": int(d["wait_time_seconds"].total_seconds()),
                    }
                }
            )
        elif t == ReportType.DROPOFF_REQUEST_EVENT:
            out.append({"dropoff": {"v": n.get("veh", d["vehicle_id"]), "r": n.get("req", d["request_id"])}})
        elif t == ReportType.VEHICLE_MOVE_EVENT:
            out.append({"move": {"v": n.get("veh", d["vehicle_id"]), "km": q(d["distance_km"]), "energy": q(d["energy"])}})
        elif t == ReportType.VEHICLE_CHARGE_EVENT:
            out.append(
                {
                    "charge": {
                        "v": n.get("veh", d["vehicle_id"]),
                        "s": n.get("stn", d["station_id"]),
                        "c": n.get("chg", d["charger_id"]),
                        "amount": q(d["energy"]),
                        "price": q(d["price"]),
                    }
                }
            )
        elif t == ReportType.DRIVER_SCHEDULE_EVENT:
            out.append({"shift": {"v": n.get("veh", d["vehicle_id"]), "on": str(d["schedule_event"]).lower().endswith("on")}})
    return out
