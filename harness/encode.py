"""Encoding of real HIVE objects into the JSON the Lean driver decodes (Hive/Json.lean).

Strings are interned to naturals. For id kinds whose *order* the code uses (vehicles, stations,
bases, requests, chargers, fleets) the natural is the rank given by the scenario (`Interner.fix`),
so that Lean's numeric order is Python's string order. Cells and links are numbered first-come.
Floats are sent as exact rationals.
"""
from __future__ import annotations

from fractions import Fraction
from typing import Any, Dict, List, Optional

import h3

from nrel.hive.model.energy.energytype import EnergyType
from nrel.hive.state.vehicle_state.idle import Idle
from nrel.hive.state.vehicle_state.repositioning import Repositioning
from nrel.hive.state.vehicle_state.out_of_service import OutOfService
from nrel.hive.state.vehicle_state.dispatch_trip import DispatchTrip
from nrel.hive.state.vehicle_state.servicing_trip import ServicingTrip
from nrel.hive.state.vehicle_state.dispatch_station import DispatchStation
from nrel.hive.state.vehicle_state.charging_station import ChargingStation
from nrel.hive.state.vehicle_state.charge_queueing import ChargeQueueing
from nrel.hive.state.vehicle_state.dispatch_base import DispatchBase
from nrel.hive.state.vehicle_state.reserve_base import ReserveBase
from nrel.hive.state.vehicle_state.charging_base import ChargingBase
from nrel.hive.state.vehicle_state.servicing_pooling_trip import ServicingPoolingTrip
from nrel.hive.state.vehicle_state.dispatch_pooling_trip import DispatchPoolingTrip
from nrel.hive.dispatcher.instruction import instructions as I


def q(x) -> str:
    """exact rational of a float/int as 'n/d'"""
    if isinstance(x, bool):
        raise TypeError("bool is not a number here")
    f = Fraction(x)
    return str(f.numerator) if f.denominator == 1 else f"{f.numerator}/{f.denominator}"


class Interner:
    def __init__(self, search_res: int):
        self.tables: Dict[str, Dict[str, int]] = {}
        self.search_res = search_res

    def fix(self, kind: str, names) -> None:
        """rank the given names in Python's (string) order"""
        t = self.tables.setdefault(kind, {})
        assert not t, f"{kind} already fixed"
        for i, n in enumerate(sorted(names)):
            t[n] = i

    def get(self, kind: str, name: Optional[str]) -> int:
        t = self.tables.setdefault(kind, {})
        if name not in t:
            if kind in ("cell", "link"):
                t[name] = len(t)
            else:
                # an id the scenario did not declare (e.g. an instruction naming a missing target):
                # give it a number above all declared ones; its order is never used
                t[name] = 1000000 + len(t)
        return t[name]

    def cell(self, g: str) -> int:
        return self.get("cell", g)

    def parent_table(self) -> List[List[int]]:
        out = []
        for g in list(self.tables.get("cell", {}).keys()):
            try:
                p = h3.h3_to_parent(g, self.search_res)
            except Exception:
                p = "invalid:" + g
            out.append([self.cell(g), self.cell(p)])
        # parents were interned while iterating: add their own parents too (fixpoint is not needed:
        # the model only asks for parents of location-resolution cells)
        return out


def enc_pos(n: Interner, p) -> Dict[str, Any]:
    return {"link": n.get("link", p.link_id), "cell": n.cell(p.geoid)}


def enc_link(n: Interner, l) -> Dict[str, Any]:
    return {
        "id": n.get("link", l.link_id),
        "start": n.cell(l.start),
        "stop": n.cell(l.end),
        "dist": q(l.distance_km),
        "speed": q(l.speed_kmph),
    }


def enc_route(n: Interner, r) -> List[Dict[str, Any]]:
    return [enc_link(n, l) for l in r]


def enc_members(n: Interner, m) -> List[int]:
    return sorted(n.get("fleet", f) for f in m.memberships)


def enc_request(n: Interner, r) -> Dict[str, Any]:
    return {
        "id": n.get("req", r.id),
        "pos": enc_pos(n, r.position),
        "dest": enc_pos(n, r.destination_position),
        "departure": int(r.departure_time),
        "passengers": len(r.passengers),
        "members": enc_members(n, r.membership),
        "allowsPooling": bool(r.allows_pooling),
        "value": q(r.value),
        "dispVeh": None if r.dispatched_vehicle is None else n.get("veh", r.dispatched_vehicle),
        "dispTime": None if r.dispatched_vehicle_time is None else int(r.dispatched_vehicle_time),
    }


def enc_act(n: Interner, a) -> Any:
    if isinstance(a, Idle):
        return {"idle": {"dur": int(a.idle_duration)}}
    if isinstance(a, Repositioning):
        return {"repositioning": {"route": enc_route(n, a.route)}}
    if isinstance(a, OutOfService):
        return "outOfService"
    if isinstance(a, DispatchTrip):
        return {"dispatchTrip": {"rid": n.get("req", a.request_id), "route": enc_route(n, a.route)}}
    if isinstance(a, ServicingTrip):
        return {
            "servicingTrip": {
                "req": enc_request(n, a.request),
                "dep": int(a.departure_time),
                "route": enc_route(n, a.route),
            }
        }
    if isinstance(a, DispatchStation):
        return {
            "dispatchStation": {
                "sid": n.get("stn", a.station_id),
                "cid": n.get("chg", a.charger_id),
                "route": enc_route(n, a.route),
            }
        }
    if isinstance(a, ChargingStation):
        return {"chargingStation": {"sid": n.get("stn", a.station_id), "cid": n.get("chg", a.charger_id)}}
    if isinstance(a, ChargeQueueing):
        return {
            "chargeQueueing": {
                "sid": n.get("stn", a.station_id),
                "cid": n.get("chg", a.charger_id),
                "enq": int(a.enqueue_time),
            }
        }
    if isinstance(a, DispatchBase):
        return {"dispatchBase": {"bid": n.get("base", a.base_id), "route": enc_route(n, a.route)}}
    if isinstance(a, ReserveBase):
        return {"reserveBase": {"bid": n.get("base", a.base_id)}}
    if isinstance(a, ChargingBase):
        return {"chargingBase": {"bid": n.get("base", a.base_id), "cid": n.get("chg", a.charger_id)}}
    if isinstance(a, ServicingPoolingTrip):
        return "servicingPooling"
    if isinstance(a, DispatchPoolingTrip):
        return "dispatchPooling"
    raise TypeError(f"unknown vehicle state {a!r}")


def enc_driver(n: Interner, d) -> Any:
    if d.schedule_id is None:
        return "autonomous"
    return {
        "human": {
            "available": bool(d.available),
            "schedule": n.get("sched", d.schedule_id),
            "home": n.get("base", d.home_base_id),
            "pooling": bool(d.allows_pooling),
        }
    }


def _single_energy(m) -> float:
    vals = list(m.values())
    assert len(vals) == 1, "one energy type per vehicle"
    return vals[0]


def enc_vehicle(n: Interner, v) -> Dict[str, Any]:
    return {
        "id": n.get("veh", v.id),
        "pos": enc_pos(n, v.position),
        "members": enc_members(n, v.membership),
        "mech": n.get("mech", v.mechatronics_id),
        "en": {
            "level": q(_single_energy(v.energy)),
            "gained": q(_single_energy(v.energy_gained)),
            "expended": q(_single_energy(v.energy_expended)),
        },
        "act": enc_act(n, v.vehicle_state),
        "driver": enc_driver(n, v.driver_state),
        "balance": q(v.balance),
        "odo": q(v.distance_traveled_km),
    }


def enc_station(n: Interner, s) -> Dict[str, Any]:
    plugs = []
    for cid, cs in sorted(s.state.items()):
        plugs.append(
            {
                "id": n.get("chg", cid),
                "electric": cs.charger.energy_type == EnergyType.ELECTRIC,
                "rate": q(cs.charger.rate),
                "total": int(cs.total_chargers),
                "avail": int(cs.available_chargers),
                "price": q(cs.price_per_kwh),
                "enq": int(cs.enqueued_vehicles),
            }
        )
    return {
        "id": n.get("stn", s.id),
        "pos": enc_pos(n, s.position),
        "members": enc_members(n, s.membership),
        "plugs": plugs,
        "onShift": sorted(n.get("chg", c) for c in s.on_shift_access_chargers),
        "balance": q(s.balance),
        "dispE": q(s.energy_dispensed.get(EnergyType.ELECTRIC, 0.0)),
        "dispG": q(s.energy_dispensed.get(EnergyType.GASOLINE, 0.0)),
    }


def enc_base(n: Interner, b) -> Dict[str, Any]:
    return {
        "id": n.get("base", b.id),
        "pos": enc_pos(n, b.position),
        "members": enc_members(n, b.membership),
        "total": int(b.total_stalls),
        "avail": int(b.available_stalls),
        "station": None if b.station_id is None else n.get("stn", b.station_id),
    }


def enc_colldict(n: Interner, m, kind: str):
    return [[n.cell(c), sorted(n.get(kind, i) for i in ids)] for c, ids in sorted(m.items())]


def enc_index(n: Interner, loc, search, kind: str) -> Dict[str, Any]:
    return {"loc": enc_colldict(n, loc, kind), "search": enc_colldict(n, search, kind)}


def enc_instr(n: Interner, i) -> Any:
    v = n.get("veh", i.vehicle_id)
    if isinstance(i, I.IdleInstruction):
        return {"idle": {"v": v}}
    if isinstance(i, I.DispatchTripInstruction):
        return {"dispatchTrip": {"v": v, "r": n.get("req", i.request_id)}}
    if isinstance(i, I.DispatchPoolingTripInstruction):
        return {"dispatchPooling": {"v": v}}
    if isinstance(i, I.DispatchStationInstruction):
        return {"dispatchStation": {"v": v, "s": n.get("stn", i.station_id), "c": n.get("chg", i.charger_id)}}
    if isinstance(i, I.ChargeStationInstruction):
        return {"chargeStation": {"v": v, "s": n.get("stn", i.station_id), "c": n.get("chg", i.charger_id)}}
    if isinstance(i, I.ChargeBaseInstruction):
        return {"chargeBase": {"v": v, "b": n.get("base", i.base_id), "c": n.get("chg", i.charger_id)}}
    if isinstance(i, I.DispatchBaseInstruction):
        return {"dispatchBase": {"v": v, "b": n.get("base", i.base_id)}}
    if isinstance(i, I.RepositionInstruction):
        return {"reposition": {"v": v, "l": n.get("link", i.destination)}}
    if isinstance(i, I.ReserveBaseInstruction):
        return {"reserveBase": {"v": v, "b": n.get("base", i.base_id)}}
    if isinstance(i, I.OutOfServiceInstruction):
        return {"outOfService": {"v": v}}
    raise TypeError(f"unknown instruction {i!r}")


def enc_sim(n: Interner, s) -> Dict[str, Any]:
    return {
        "time": int(s.sim_time),
        "dt": int(s.sim_timestep_duration_seconds),
        "vehicles": [enc_vehicle(n, v) for _, v in sorted(s.vehicles.items())],
        "stations": [enc_station(n, x) for _, x in sorted(s.stations.items())],
        "bases": [enc_base(n, x) for _, x in sorted(s.bases.items())],
        "requests": [enc_request(n, x) for _, x in sorted(s.requests.items())],
        "applied": [[n.get("veh", k), enc_instr(n, i)] for k, i in sorted(s.applied_instructions.items())],
        "vIdx": enc_index(n, s.v_locations, s.v_search, "veh"),
        "rIdx": enc_index(n, s.r_locations, s.r_search, "req"),
        "sIdx": enc_index(n, s.s_locations, s.s_search, "stn"),
        "bIdx": enc_index(n, s.b_locations, s.b_search, "base"),
    }


def enc_mech(n: Interner, m) -> Dict[str, Any]:
    """mechatronics → Hive.Mech with unit conversions and scale factors applied"""
    from nrel.hive.model.vehicle.mechatronics.bev import BEV
    from nrel.hive.model.vehicle.mechatronics.ice import ICE
    from nrel.hive.util.units import Unit, get_unit_conversion

    pt = m.powertrain
    common = {
        "id": n.get("mech", m.mechatronics_id),
        "speedConv": q(get_unit_conversion(Unit.KMPH, pt.speed_units)),
        "distConv": q(get_unit_conversion(Unit.KILOMETERS, pt.distance_units)),
        "ptSpeed": [q(float(x)) for x in pt.consumption_speed],
        "ptEnergy": [q(float(x)) for x in pt.consumption_energy_per_distance],
    }
    if isinstance(m, BEV):
        pc = m.powercurve
        return {
            **common,
            "kind": "bev",
            "capacity": q(m.battery_capacity_kwh),
            "idleRate": q(m.idle_kwh_per_hour),
            "energyConv": q(get_unit_conversion(pt.energy_units, Unit.KILOWATT_HOUR)),
            "taperCutoff": q(m.charge_taper_cutoff_kw),
            "fullThreshold": q(m.battery_full_threshold_kwh),
            "pcStep": int(pc.step_size_seconds),
            "pcEnergy": [q(float(x)) for x in pc._charging_energy_kwh],
            "pcRate": [q(float(x)) for x in pc._charging_rate_kw],
        }
    if isinstance(m, ICE):
        return {
            **common,
            "kind": "ice",
            "capacity": q(m.tank_capacity_gallons),
            "idleRate": q(m.idle_gallons_per_hour),
            "energyConv": q(get_unit_conversion(pt.energy_units, Unit.GALLON_GASOLINE)),
            "taperCutoff": "0",
            "fullThreshold": "0",
            "pcStep": 1,
            "pcEnergy": [],
            "pcRate": [],
        }
    raise TypeError(f"unknown mechatronics {m!r}")
