"""Function-level correspondence for the timed inputs (C11): generated request files and price
tables are written as CSV, read by the real ChargingPriceUpdate / UpdateRequestsFromFile /
CancelRequests (built by their own `build`, lazy and eager) over a run of pre-step phases with
scripted pick-ups; the Lean model `Hive.Timed.run` is given the same rows and must produce the same
admissions, cancellations, request sets and station prices at every step. The closed-form
statements of C11 are evaluated by Lean on the implementation's trace."""
from __future__ import annotations

from . import framework as fw  # noqa: E402

import csv
import logging
import os
import random
import shutil
import tempfile
from typing import Any, Dict, List

import h3

from nrel.hive.dispatcher.instruction.instructions import DispatchTripInstruction
from nrel.hive.dispatcher.instruction_generator.dispatcher import Dispatcher
from nrel.hive.model.request import Request, RequestRateStructure
from nrel.hive.model.sim_time import SimTime
from nrel.hive.reporting.report_type import ReportType
from nrel.hive.state.simulation_state import simulation_state_ops
from nrel.hive.state.simulation_state.update.cancel_requests import CancelRequests
from nrel.hive.state.simulation_state.update.charging_price_update import ChargingPriceUpdate
from nrel.hive.state.simulation_state.update.update_requests_from_file import UpdateRequestsFromFile

from .encode import enc_request, enc_sim, q
from .world import CHARGERS, World

WORK = os.path.join(os.path.dirname(os.path.dirname(os.path.abspath(__file__))), ".work", "tmp")


def _times(rng: random.Random, t0: int, dt: int, steps: int, count: int) -> List[int]:
    """sorted timestamps: bursts, identical values, gaps, values on / next to step boundaries,
    some before the start and some after the end of the run"""
    t = max(0, t0 - rng.choice([0, 0, 1, dt, 3 * dt, 700]))
    out = []
    for _ in range(count):
        r = rng.random()
        if r < 0.3:
            inc = 0
        elif r < 0.5:
            inc = 1
        elif r < 0.7:
            inc = rng.choice([dt - 1, dt, dt + 1])
        elif r < 0.85:
            # land exactly on / just before / just after a step boundary ahead
            k = rng.randint(0, steps + 1)
            target = t0 + k * dt + rng.choice([-1, 0, 0, 1])
            inc = max(0, target - t)
        else:
            inc = rng.choice([2 * dt, 5 * dt + 3, 17, 600])
        t += max(0, inc)
        out.append(t)
    return out


def _fmt_time(rng: random.Random, t: int) -> str:
    """a timestamp as a file may spell it: epoch digits, blank-padded, signed, ISO 8601"""
    r = rng.random()
    if t < 0:
        return str(t) if r < 0.8 else f" {t}"
    if r < 0.7 or t >= 10 ** 7:
        return str(t)
    if r < 0.78:
        return f" {t}"
    if r < 0.85:
        return f"+{t}"
    if r < 0.9:
        return f"{t} "
    from datetime import datetime, timezone

    return datetime.fromtimestamp(t, tz=timezone.utc).replace(tzinfo=None).isoformat()


def gen_case(rng: random.Random, k: int) -> Dict[str, Any]:
    search_res = rng.choice([7, 9, 9, 11])
    with_fleets = rng.random() < 0.5
    w = World(random.Random(rng.getrandbits(48)), n_veh=(1, 2), n_stn=(2, 5), search_res=search_res,
              with_fleets=with_fleets, with_humans=False)
    n = w.n
    t0 = rng.choice([0, 0, 3600, 86340, 86400 * 2 - 7])
    dt = rng.choice([1, 7, 30, 60, 60, 90, 3600])
    steps = rng.randint(3, 24)
    timeout = rng.choice([0, 1, dt - 1, dt, dt + 1, 2 * dt, 5 * dt + 1, 600])
    timeout = max(0, timeout)
    env = w.env._replace(config=w.env.config._replace(sim=w.env.config.sim._replace(
        request_cancel_time_seconds=timeout, start_time=SimTime.build(t0), end_time=SimTime.build(t0 + steps * dt), timestep_duration_seconds=dt)))
    sim = w.sim0._replace(sim_time=SimTime.build(t0), sim_timestep_duration_seconds=dt)
    lazy = rng.random() < 0.5
    os.makedirs(WORK, exist_ok=True)
    tmp = tempfile.mkdtemp(prefix="timed", dir=WORK)
    try:
        # ---------------- request file ----------------
        n_req = rng.choice([0, 1, 3, 8, 20, 40])
        deps = _times(rng, t0, dt, steps, n_req)
        in_order = True
        if n_req >= 2 and rng.random() < 0.25:
            # a file that is not sorted by departure time: a few rows displaced
            for _ in range(rng.randint(1, 3)):
                x = deps.pop(rng.randrange(len(deps)))
                deps.insert(rng.randrange(len(deps) + 1), x)
            in_order = deps == sorted(deps)
        nums = rng.sample(range(10000), n_req)
        fleet_col = with_fleets or rng.random() < 0.2
        req_rows = []
        model_rows = []
        for dep, num in zip(deps, nums):
            rid = f"r{num:04d}"
            n.tables.setdefault("req", {})[rid] = num
            o, d = rng.choice(w.cells), rng.choice(w.cells)
            (olat, olon), (dlat, dlon) = h3.h3_to_geo(o), h3.h3_to_geo(d)
            row = {"request_id": rid, "o_lat": repr(olat), "o_lon": repr(olon), "d_lat": repr(dlat), "d_lon": repr(dlon),
                   "departure_time": _fmt_time(rng, dep), "passengers": str(rng.randint(1, 3))}
            fleet = None
            if fleet_col:
                fleet = rng.choice(["", "", "fA", "fB"]) if rng.random() < 0.9 else "fA"
                row["fleet_id"] = fleet
            valid = True
            if rng.random() < 0.06:
                row["o_lat"] = rng.choice(["north", "", "12,5"])
                valid = False
            req_rows.append(row)
            if valid:
                req = Request.build(request_id=rid, origin=h3.geo_to_h3(olat, olon, 15), destination=h3.geo_to_h3(dlat, dlon, 15),
                                    road_network=w.net, departure_time=SimTime.build(dep), passengers=int(row["passengers"]),
                                    allows_pooling=False, fleet_id=fleet or None)
                req = req.assign_value(RequestRateStructure(), w.net)
                model_rows.append({"req": enc_request(n, req), "valid": True})
            else:
                dummy = Request.build(request_id=rid, origin=o, destination=d, road_network=w.net, departure_time=SimTime.build(dep),
                                      passengers=1, allows_pooling=False)
                model_rows.append({"req": enc_request(n, dummy), "valid": False})
        req_file = os.path.join(tmp, "requests.csv")
        cols = ["request_id", "o_lat", "o_lon", "d_lat", "d_lon", "departure_time", "passengers"] + (["fleet_id"] if fleet_col else [])
        with open(req_file, "w", newline="") as f:
            wr = csv.DictWriter(f, fieldnames=cols)
            wr.writeheader()
            wr.writerows(req_rows)
        # ---------------- price table ----------------
        defaults = rng.random() < 0.1
        stations = sorted(sim.stations.values(), key=lambda s: s.id)
        keys: List[str] = []
        if not defaults:
            for s in stations:
                if rng.random() < 0.6:
                    keys.append(s.id)
            for s in stations:
                r = rng.random()
                if r < 0.25:
                    keys.append(h3.h3_to_parent(s.geoid, search_res))            # the search cell itself
                elif r < 0.4:
                    keys.append(h3.h3_to_parent(s.geoid, max(0, search_res - rng.randint(1, 2))))  # coarser
                elif r < 0.65:
                    keys.append(h3.h3_to_parent(s.geoid, rng.randint(search_res + 1, 15)))   # finer than the search cell
            if rng.random() < 0.3:
                keys.append(rng.choice(["nowhere", "s999", "", "123", "-5", "12345678901234567"]))
            if rng.random() < 0.2:
                # a valid cell somewhere else
                keys.append(h3.geo_to_h3(10.0 + rng.random(), 20.0, rng.choice([search_res, 12])))
            keys = sorted(set(keys))
        key_col = rng.choice(["station_id", "geoid"])
        n_pr = 0 if (not keys or rng.random() < 0.1) else rng.choice([1, 2, 5, 12, 30])
        ptimes = _times(rng, t0, dt, steps, n_pr)
        if ptimes and rng.random() < 0.15:
            # a tariff dated before the epoch: the only way to have one in force in the first step of a run starting at 0
            ptimes = [rng.choice([-1, -60, -3600])] + ptimes[1:]
        price_rows = []
        model_prices = []
        n.fix("pkey", keys if keys else ["default"])
        for t in ptimes:
            key = rng.choice(keys)
            plug = rng.choice(sorted(CHARGERS.keys()))
            price = rng.choice([0.0, 0.05, 0.13, 0.31, 0.5, 1.7, 2.25])
            valid = True
            txt = repr(price)
            if rng.random() < 0.05:
                txt, valid = rng.choice(["free", ""]), False
            price_rows.append({"time": _fmt_time(rng, t), key_col: key, "charger_id": plug, "price_kwh": txt})
            model_prices.append({"time": t, "key": n.get("pkey", key), "plug": n.get("chg", plug), "price": q(price), "valid": valid})
        if keys and ptimes and rng.random() < 0.35:
            # one batch (same time stamp) in which several keys name the same station and plug type with
            # different prices: which one is in force afterwards is decided by the order of the keys
            def _covers(key: str, s) -> bool:
                if key == s.id:
                    return True
                try:
                    if not h3.h3_is_valid(key):
                        return False
                    res = h3.h3_get_resolution(key)
                except Exception:
                    return False
                return res <= 15 and h3.h3_to_parent(s.geoid, res) == key
            s0 = rng.choice(stations)
            cov = [k_ for k_ in keys if _covers(k_, s0)]
            if len(cov) >= 2:
                t = rng.choice(ptimes)
                plug = rng.choice(sorted(s0.state.keys()))
                batch = rng.sample(cov, rng.randint(2, min(3, len(cov))))
                pool = [0.05, 0.13, 0.31, 0.5, 1.7, 2.25]
                rng.shuffle(pool)
                for key, price in zip(batch, pool):
                    price_rows.append({"time": str(t), key_col: key, "charger_id": plug, "price_kwh": repr(price)})
                    model_prices.append({"time": t, "key": n.get("pkey", key), "plug": n.get("chg", plug), "price": q(price), "valid": True})
                # keep the file sorted by time (stable: the batch's rows stay in the order they were drawn)
                order = sorted(range(len(price_rows)), key=lambda i: model_prices[i]["time"])
                price_rows = [price_rows[i] for i in order]
                model_prices = [model_prices[i] for i in order]
        chargers_file = os.path.join(tmp, "chargers.csv")
        with open(chargers_file, "w", newline="") as f:
            wr = csv.writer(f)
            wr.writerow(["charger_id", "energy_type", "rate", "units"])
            for cid, c in sorted(CHARGERS.items()):
                wr.writerow([cid, c.energy_type.name.lower(), c.rate, c.units])
        price_file = None
        if not defaults:
            price_file = os.path.join(tmp, "prices.csv")
            with open(price_file, "w", newline="") as f:
                wr = csv.DictWriter(f, fieldnames=["time", key_col, "charger_id", "price_kwh"])
                wr.writeheader()
                wr.writerows(price_rows)
        else:
            # the built-in default table: every plug type costs nothing from time 0 on
            model_prices = [{"time": 0, "key": n.get("pkey", "default"), "plug": n.get("chg", c), "price": "0", "valid": True}
                            for c in sorted(CHARGERS.keys())]

        def named(key: str) -> List[str]:
            """what the key names, computed from the stations' cells - not from the search index"""
            if defaults:
                return [s.id for s in stations] if key == "default" else []
            if key in sim.stations:
                return [key]
            try:
                if not h3.h3_is_valid(key):
                    return []
                res = h3.h3_get_resolution(key)
            except Exception:
                return []
            return sorted(s.id for s in stations if res <= 15 and h3.h3_to_parent(s.geoid, res) == key)

        names = [[n.get("pkey", key), [n.get("stn", s) for s in named(key)]] for key in (keys if keys else ["default"])]
        # ---------------- the run ----------------
        price_fn = ChargingPriceUpdate.build(price_file, chargers_file, lazy_file_reading=lazy)
        req_fn = UpdateRequestsFromFile.build(req_file, None, lazy_file_reading=lazy)
        cancel_fn = CancelRequests()
        dispatcher = Dispatcher(env.config.dispatcher)
        sim_enc = enc_sim(n, sim)
        picks: List[List[int]] = []
        obs: List[Dict[str, Any]] = []
        raised = None
        for step in range(steps):
            env.reporter.reports = []
            try:
                sim, p2 = price_fn.update(sim, env)
                price_fn = p2 or price_fn
                sim, r2 = req_fn.update(sim, env)
                req_fn = r2 or req_fn
                sim, c2 = cancel_fn.update(sim, env)
                cancel_fn = c2 or cancel_fn
            except Exception as e:  # the run stopped
                raised = {"step": step, "error": f"{type(e).__name__}: {e}"[:200]}
                break
            reports = list(env.reporter.reports)
            obs.append({
                "time": int(sim.sim_time),
                "adds": [n.get("req", r.report["request_id"]) for r in reports if r.report_type == ReportType.ADD_REQUEST_EVENT],
                "cancels": [n.get("req", r.report["request_id"]) for r in reports if r.report_type == ReportType.CANCEL_REQUEST_EVENT],
                "present": sorted(n.get("req", r) for r in sim.requests.keys()),
                "pairs": [],
                "prices": [[n.get("stn", s.id), [n.get("chg", c), q(cs.price_per_kwh)]]
                           for s in sorted(sim.stations.values(), key=lambda s: n.get("stn", s.id))
                           for c, cs in sorted(s.state.items(), key=lambda kv: n.get("chg", kv[0]))],
            })
            # now and then the built-in dispatcher looks at the state the readers produced (C10: which
            # vehicle it pairs with which admitted request)
            if sim.requests and sim.vehicles and rng.random() < 0.3:
                try:
                    _, instrs = dispatcher.generate_instructions(sim, env)
                    obs[-1]["pairs"] = sorted([n.get("veh", i.vehicle_id), n.get("req", i.request_id)]
                                              for i in instrs if isinstance(i, DispatchTripInstruction))
                except Exception as e:
                    raised = {"step": step, "error": f"dispatcher {type(e).__name__}: {e}"[:200]}
                    break
            # somebody picks requests up during the step
            gone = []
            for rid in sorted(sim.requests.keys()):
                if rng.random() < 0.15:
                    err, s2 = simulation_state_ops.remove_request(sim, rid)
                    if s2 is not None:
                        sim = s2
                        gone.append(n.get("req", rid))
            picks.append(gone)
            sim = simulation_state_ops.tick(sim)
        for fn in (price_fn, req_fn):
            try:
                fn.reader.close()
            except Exception:
                pass
        rec = {
            "op": "timed", "id": f"t{k}", "sim": sim_enc, "parent": n.parent_table(), "timeout": timeout, "fleets": bool(env.fleet_ids),
            "rows": model_rows, "inOrder": in_order, "prices": model_prices, "names": names, "picks": picks, "obs": obs, "raised": raised,
            "meta": {"t0": t0, "dt": dt, "steps": steps, "lazy": lazy, "defaults": defaults, "key_col": key_col, "search_res": search_res,
                     "keys": keys, "n_req": n_req, "in_order": in_order, "n_price": len(model_prices)},
        }
        return rec
    finally:
        shutil.rmtree(tmp, ignore_errors=True)


def shape_of(rec: Dict[str, Any], out: Dict[str, Any]) -> List[tuple]:
    m = rec["meta"]
    shapes = set()
    n_add = sum(len(o["adds"]) for o in rec["obs"])
    n_can = sum(len(o["cancels"]) for o in rec["obs"])
    shapes.add(("req", m["lazy"], rec["fleets"], min(n_add, 3), min(n_can, 3), rec["timeout"] <= m["dt"], m["n_req"] - n_add > 0, m["in_order"]))
    kinds = set()
    for key in m["keys"]:
        if key.startswith("s") and len(key) == 4:
            kinds.add("station")
        else:
            try:
                r = h3.h3_get_resolution(key) if h3.h3_is_valid(key) else None
            except Exception:
                r = None
            kinds.add("junk" if r is None else ("search" if r == m["search_res"] else ("coarse" if r < m["search_res"] else "fine")))
    changed = len({tuple(map(str, o["prices"])) for o in rec["obs"]})
    shapes.add(("price", m["defaults"], m["key_col"], tuple(sorted(kinds)), min(changed, 4)))
    return sorted(shapes)


def worker(args) -> Dict[str, Any]:
    logging.disable(logging.CRITICAL)
    from .lean import run_driver

    seed, count = args
    rng = random.Random(seed)
    recs = [gen_case(rng, seed * 100000 + i) for i in range(count)]
    outs = run_driver(recs)
    findings = []
    shapes = set()
    steps = 0
    for r, o in zip(recs, outs):
        steps += len(r["obs"])
        shapes.update(shape_of(r, o))
        if r["raised"]:
            findings.append({"id": r["id"], "kind": "mon", "record": r,
                             "text": [f"C11/run-stopped| the pre-step updates raised at step {r['raised']['step']}: {r['raised']['error']}"]})
        if "error" in o:
            findings.append({"id": r["id"], "kind": "driver-error", "text": [o["error"][:300]], "record": r})
        else:
            if o.get("diff"):
                findings.append({"id": r["id"], "kind": "diff", "text": o["diff"][:8], "record": r})
            if o.get("mon"):
                findings.append({"id": r["id"], "kind": "mon", "text": o["mon"][:8], "record": r})
    s = recs[0]
    return {"n": len(recs), "steps": steps, "findings": fw.pick(findings, 20), "n_findings": len(findings), "shapes": sorted(shapes),
            "rows": sum(len(r["rows"]) + len(r["prices"]) for r in recs),
            "sample": {"meta": s["meta"], "timeout": s["timeout"], "departures": [x["req"]["departure"] for x in s["rows"]][:12],
                       "price_rows": s["prices"][:6], "first_steps": s["obs"][:3]}}
