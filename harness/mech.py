"""Function-level correspondence for the mechatronics arithmetic (C04/C05): generated powertrain
and power-curve tables, levels, routes, durations through the real BEV / ICE methods vs the Lean
model `Hive.Mech`, with the C04 statements evaluated by Lean on the implementation's results."""
from __future__ import annotations

from . import framework as fw  # noqa: E402

import logging
import random
from dataclasses import replace
from typing import Any, Dict, List

import immutables

from nrel.hive.model.energy.charger import Charger
from nrel.hive.model.energy.energytype import EnergyType
from nrel.hive.model.roadnetwork.linktraversal import LinkTraversal
from nrel.hive.model.vehicle.mechatronics.bev import BEV
from nrel.hive.model.vehicle.mechatronics.ice import ICE
from nrel.hive.model.vehicle.mechatronics.powercurve.tabular_powercurve import TabularPowercurve
from nrel.hive.model.vehicle.mechatronics.powertrain.tabular_powertrain import TabularPowertrain

from .encode import Interner, enc_mech, q


def rnd(rng: random.Random, lo: float, hi: float) -> float:
    return rng.uniform(lo, hi)


def gen_powertrain(rng, electric: bool, scale: float) -> TabularPowertrain:
    n = rng.randint(2, 7)
    speeds = sorted({round(rnd(rng, 0, 130), rng.choice([0, 1, 3])) for _ in range(n)})
    if len(speeds) < 2:
        speeds = [0.0, 60.0]
    model = [{"speed": s, "energy_per_distance": rnd(rng, 0.3, 2.5)} for s in speeds]
    rng.shuffle(model)
    data = {
        "consumption_model": model,
        "speed_units": rng.choice(["mph", "kmph"]),
        "energy_units": "watthour" if electric else "gal_gas",
        "distance_units": rng.choice(["mile", "kilometers"]),
        "scale_factor": scale,
    }
    return TabularPowertrain.from_data(data)


def gen_powercurve(rng, cap: float, max_kw: float) -> TabularPowercurve:
    n = rng.randint(2, 6)
    es = sorted({round(rnd(rng, 0, 1), 3) for _ in range(n)} | {0.0, 1.0})
    curve = [{"energy_kwh": e, "power_kw": rnd(rng, 0.05, 1.0)} for e in es]
    rng.shuffle(curve)
    data = {"name": "gen", "power_type": "electric", "step_size_seconds": rng.choice([1, 7, 30, 60, 300]), "power_curve": curve}
    return TabularPowercurve(data=data, nominal_max_charge_kw=max_kw, battery_capacity_kwh=cap)


def gen_rate_case(rng: random.Random, k: int) -> Dict[str, Any]:
    """the only operations that change a plug's charge rate (`ChargerState.set_charge_rate`,
    `scale_charge_rate`, reached through `Station.set_charger_rate / scale_charger_rate`): a sequence
    of requests incl. negative, zero, boundary and excessive values; C04 needs rates to stay >= 0"""
    from returns.result import Failure

    from nrel.hive.model.energy.charger.charger import Charger
    from nrel.hive.model.station.charger_state import ChargerState

    factory = rng.choice([3.3, 7.2, 50.0, 150.0, rnd(rng, 1, 200)])
    cs = ChargerState.build(Charger(id="p", energy_type=EnergyType.ELECTRIC, rate=factory, units="kilowatts"), 2)
    ops = []
    for _ in range(rng.randint(1, 5)):
        cur = cs.charger.rate
        if rng.random() < 0.6:
            val = rng.choice([-5.0, -0.001, 0.0, cur / 2, cur, cur * 1.01, cur * 2, rnd(rng, -10, 2 * factory)])
            res = cs.set_charge_rate(val)
            kind = "set"
        else:
            val = rng.choice([-1.0, -0.01, 0.0, 0.5, 1.0, 1.01, 1.5, rnd(rng, -0.5, 1.5)])
            res = cs.scale_charge_rate(val)
            kind = "scale"
        if isinstance(res, Failure):
            ops.append({"kind": kind, "value": q(val), "accepted": False, "rate": q(cs.charger.rate)})
        else:
            cs = res.unwrap()
            ops.append({"kind": kind, "value": q(val), "accepted": True, "rate": q(cs.charger.rate)})
    return {"op": "rate", "id": f"m{k}", "factory": q(factory), "ops": ops,
            "shape": ["rate", tuple(sorted({(o["kind"], o["accepted"]) for o in ops}))], "fn": "rate", "pre": None, "post": None}


def gen_case(rng: random.Random, k: int, template_vehicle) -> Dict[str, Any]:
    if rng.random() < 0.06:
        return gen_rate_case(rng, k)
    n = Interner(9)
    n.fix("mech", ["gen"])
    electric = rng.random() < 0.6
    if electric:
        cap = rnd(rng, 20, 100)
        m = BEV(
            mechatronics_id="gen",
            battery_capacity_kwh=cap,
            idle_kwh_per_hour=rnd(rng, 0.1, 6),
            powertrain=gen_powertrain(rng, True, rnd(rng, 150, 350)),
            powercurve=gen_powercurve(rng, cap, rnd(rng, 20, 150)),
            nominal_watt_hour_per_mile=250,
            charge_taper_cutoff_kw=rng.choice([5.0, 10.0, 20.0]),
            battery_full_threshold_kwh=rng.choice([0.1, 0.25]),
        )
        etype = EnergyType.ELECTRIC
    else:
        cap = rnd(rng, 8, 25)
        m = ICE(
            mechatronics_id="gen",
            tank_capacity_gallons=cap,
            idle_gallons_per_hour=rnd(rng, 0.05, 0.6),
            powertrain=gen_powertrain(rng, False, 1 / rnd(rng, 15, 45)),
            nominal_miles_per_gallon=30,
        )
        etype = EnergyType.GASOLINE
    lvl = rng.choice([0.0, cap, rnd(rng, 0, cap), rnd(rng, 0, cap), rnd(rng, 0, 0.01), cap - rnd(rng, 0, 0.3)])
    lvl = max(0.0, min(cap, lvl))
    g0, x0 = rnd(rng, 0, 50), rnd(rng, 0, 50)
    veh = replace(
        template_vehicle,
        mechatronics_id="gen",
        energy=immutables.Map({etype: lvl}),
        energy_gained=immutables.Map({etype: g0}),
        energy_expended=immutables.Map({etype: x0}),
    )
    op = rng.choice(["consume", "idle", "add", "add"])
    rec: Dict[str, Any] = {"op": "mech", "id": f"m{k}", "mech": enc_mech(n, m), "fn": op,
                           "pre": {"level": q(lvl), "gained": q(g0), "expended": q(x0)}}
    if op == "consume":
        links = []
        for i in range(rng.randint(0, 4)):
            d = rng.choice([0.0, rnd(rng, 0.001, 0.05), rnd(rng, 0.05, 3), rnd(rng, 3, 60)])
            links.append(LinkTraversal(f"L{i}", "8f2681b4a0c8a6a", "8f2681b4a0c8a6b", d, rng.choice([3.0, 25.0, 40.0, 63.7, 120.0, 150.0])))
        out = m.consume_energy(veh, tuple(links))
        rec["route"] = [{"id": i, "start": 0, "stop": 1, "dist": q(l.distance_km), "speed": q(l.speed_kmph)} for i, l in enumerate(links)]
        rec["shape"] = [electric, op, len(links), lvl == 0.0, out.energy[etype] == 0.0]
    elif op == "idle":
        dt = rng.choice([1, 7, 30, 60, 90, 3600])
        out = m.idle(veh, dt)
        rec["dt"] = dt
        rec["shape"] = [electric, op, dt, lvl == 0.0, out.energy[etype] == 0.0]
    else:
        dt = rng.choice([1, 7, 30, 60, 90, 3600])
        valid = rng.random() < 0.9
        ch_el = electric if valid else not electric
        if ch_el:
            rate = rng.choice([3.3, 7.2, rnd(rng, 1, 30), 50.0, rnd(rng, 30, 200)])
        else:
            rate = rng.choice([10 / 60, rnd(rng, 0.05, 0.4)])
        ch = Charger("c", energy_type=EnergyType.ELECTRIC if ch_el else EnergyType.GASOLINE, rate=rate, units="x")
        out, _t = m.add_energy(veh, ch, dt)
        rec["dt"] = dt
        rec["electric"] = ch_el
        rec["rate"] = q(rate)
        taper = electric and ch_el and rate >= m.charge_taper_cutoff_kw
        rec["shape"] = [electric, op, dt, valid, taper, lvl >= cap - 0.3, out.energy[etype] >= cap]
        if electric:
            rec["shape"].append(m.powercurve.step_size_seconds)
    rec["post"] = {"level": q(out.energy[etype]), "gained": q(out.energy_gained[etype]), "expended": q(out.energy_expended[etype])}
    return rec


def worker(args) -> Dict[str, Any]:
    logging.disable(logging.CRITICAL)
    from .lean import run_driver
    from .world import World

    seed, count = args
    rng = random.Random(seed)
    tv = next(iter(World(random.Random(1)).sim0.vehicles.values()))
    recs = [gen_case(rng, seed * 100000 + i, tv) for i in range(count)]
    outs = run_driver(recs)
    findings = []
    shapes = set()
    for r, o in zip(recs, outs):
        shapes.add(tuple(r["shape"]))
        if "error" in o:
            findings.append({"id": r["id"], "kind": "driver-error", "text": [o["error"][:300]], "record": r})
        else:
            if o.get("diff"):
                findings.append({"id": r["id"], "kind": "diff", "text": o["diff"][:6], "record": r})
            if o.get("mon"):
                findings.append({"id": r["id"], "kind": "mon", "text": o["mon"][:6], "record": r})
    return {"n": len(recs), "findings": fw.pick(findings, 20), "n_findings": len(findings), "shapes": sorted(shapes, key=str),
            "sample": {k: recs[0][k] for k in ("fn", "pre", "post", "shape")}}
