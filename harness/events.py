"""Whole-run layer for C19: packaged scenarios (default dispatcher + charging fleet manager + drivers,
haversine network) run through the real file-writing handlers (EventfulHandler -> event.log,
StatsHandler -> summary stats). The written log is parsed back and, together with the final
SimulationState and the summary, handed to the Lean ledger (`Hive.EventLedger.violEvents`): per
vehicle move distances vs odometer and charge energies vs energy gained, per station and step the
station load vs that step's charge events, add / cancel counts vs summary, every request leaves at
most once, pickup waiting times inside [0, timeout + dt]."""
from __future__ import annotations

from . import framework as fw  # noqa: E402

import contextlib
import io
import json
import logging
import os
import random
import shutil
import tempfile
from pathlib import Path
from typing import Any, Dict, List

from pkg_resources import resource_filename

from nrel.hive.app import hive_cosim
from nrel.hive.initialization.load import load_config, load_simulation
from nrel.hive.model.sim_time import SimTime

from .encode import q

WORK = os.path.join(os.path.dirname(os.path.dirname(os.path.abspath(__file__))), ".work", "tmp")
SCENARIOS = ["denver_demo.yaml", "denver_demo_fleets.yaml", "denver_demo_constrained_charging.yaml"]


def _secs(x: Any) -> int:
    """times are written as ISO strings or integers"""
    try:
        return int(x)
    except (TypeError, ValueError):
        return int(SimTime.build(str(x)))


def _dur(x: Any) -> int:
    """timedelta written by json default=str: 'H:MM:SS' or 'D day(s), H:MM:SS'"""
    s = str(x)
    days = 0
    if "day" in s:
        d, s = s.split(",")
        days = int(d.split()[0])
        s = s.strip()
    h, m, sec = s.split(":")
    return days * 86400 + int(h) * 3600 + int(m) * 60 + int(float(sec))


def _gen_case(rng: random.Random, k: int) -> Dict[str, Any]:
    os.makedirs(WORK, exist_ok=True)
    out = tempfile.mkdtemp(prefix="events", dir=WORK)
    try:
        dt = rng.choice([30, 60, 60, 120, 300])
        n = rng.randint(30, 200)
        start = rng.choice([0, 6 * 3600, 8 * 3600, 17 * 3600, 23 * 3600 + 1800])
        timeout = rng.choice([600, 600, 300, 2 * dt])
        variant = {"yaml": rng.choice(SCENARIOS), "start": start, "dt": dt, "n": n, "timeout": timeout}
        f = resource_filename("nrel.hive.resources.scenarios.denver_downtown", variant["yaml"])
        cfg = load_config(f)
        cfg = cfg._replace(
            global_config=cfg.global_config._replace(
                output_base_directory=out, log_run=False, log_states=False, log_events=True, log_stats=True, log_instructions=False,
                log_station_capacities=False, log_time_step_stats=False, log_fleet_time_step_stats=False, verbose=False,
                lazy_file_reading=rng.random() < 0.5),
            network=cfg.network._replace(network_type="euclidean"),
            sim=cfg.sim._replace(start_time=SimTime.build(start), end_time=SimTime.build(start + n * dt), timestep_duration_seconds=dt,
                                 request_cancel_time_seconds=timeout),
        )
        cfg = cfg._replace(scenario_output_directory=Path(out) / "run")
        rp = load_simulation(cfg)
        init = {vid: (v.distance_traveled_km, sum(v.energy_gained.values())) for vid, v in rp.s.vehicles.items()}
        rp = hive_cosim.crank(rp, n).runner_payload
        summary = rp.e.reporter.get_summary_stats(rp) or {}
        hive_cosim.close(rp)
        log_path = Path(out) / "run" / "event.log"
        lines = log_path.read_text().splitlines() if log_path.exists() else []
        # the same run again with only some report types selected in the logging configuration: the
        # records that are still written must be the ones written before (what is logged of one
        # kind does not depend on which other kinds are logged)
        config_msgs: List[str] = []
        if rng.random() < 0.35:
            from nrel.hive.reporting.report_type import ReportType

            all_types = sorted(cfg.global_config.log_sim_config, key=lambda t: t.name)
            keep = {t for t in all_types if rng.random() < 0.4}
            keep.add(ReportType.STATION_LOAD_EVENT)
            if rng.random() < 0.6:
                keep.discard(ReportType.VEHICLE_CHARGE_EVENT)
            out2 = tempfile.mkdtemp(prefix="events", dir=WORK)
            try:
                cfg2 = cfg._replace(global_config=cfg.global_config._replace(output_base_directory=out2, log_sim_config=frozenset(keep)),
                                    scenario_output_directory=Path(out2) / "run")
                rp2 = load_simulation(cfg2)
                rp2 = hive_cosim.crank(rp2, n).runner_payload
                hive_cosim.close(rp2)
                p2 = Path(out2) / "run" / "event.log"
                lines2 = p2.read_text().splitlines() if p2.exists() else []
            finally:
                shutil.rmtree(out2, ignore_errors=True)

            def canon(ls, names):
                outl = []
                for ln in ls:
                    try:
                        e = json.loads(ln)
                    except Exception:
                        continue
                    if e.get("report_type") in names:
                        e.pop("session_id", None)
                        outl.append(json.dumps(e, sort_keys=True))
                return outl

            names = {t.name.lower() for t in keep}
            a, b = canon(lines, names), canon(lines2, names)
            if a != b:
                i = next((k for k in range(min(len(a), len(b))) if a[k] != b[k]), min(len(a), len(b)))
                config_msgs.append(
                    f"C19/log-config| with only {sorted(names)} selected in the logging configuration, the records of those kinds differ from the ones written when every kind is "
                    f"selected ({len(b)} vs {len(a)} records; first difference at #{i}: {(b[i] if i < len(b) else None)!s:.160} vs {(a[i] if i < len(a) else None)!s:.160})")
        ids: Dict[str, Dict[str, int]] = {"v": {}, "s": {}, "r": {}}

        def num(kind: str, x: str) -> int:
            return ids[kind].setdefault(str(x), len(ids[kind]))

        moves, charges, loads, adds, cancels, pickups, dropoffs = [], [], [], [], [], [], []
        bad_lines: List[str] = []
        kinds: Dict[str, int] = {}
        for ln in lines:
            try:
                e = json.loads(ln)
                t = e["report_type"]
                kinds[t] = kinds.get(t, 0) + 1
                if t == "vehicle_move_event":
                    moves.append([num("v", e["vehicle_id"]), q(float(e["distance_km"]))])
                elif t == "vehicle_charge_event":
                    charges.append([num("v", e["vehicle_id"]), [num("s", e["station_id"]), [_secs(e["sim_time_end"]), q(float(e["energy"]))]]])
                elif t == "station_load_event":
                    loads.append([num("s", e["station_id"]), [_secs(e["sim_time_end"]), q(float(e["energy"]))]])
                elif t == "add_request_event":
                    adds.append(num("r", e["request_id"]))
                elif t == "cancel_request_event":
                    cancels.append(num("r", e["request_id"]))
                elif t == "pickup_request_event":
                    pickups.append([num("r", e["request_id"]), [num("v", e["vehicle_id"]), _dur(e["wait_time_seconds"])]])
                elif t == "dropoff_request_event":
                    dropoffs.append([num("r", e["request_id"]), num("v", e["vehicle_id"])])
            except Exception as ex:  # a record that cannot be parsed back
                bad_lines.append(f"{type(ex).__name__}: {ex}: {ln[:120]}")
        vehicles = []
        for vid, v in sorted(rp.s.vehicles.items()):
            o0, g0 = init[vid]
            vehicles.append({"id": num("v", vid), "odo": q(v.distance_traveled_km - o0), "gained": q(sum(v.energy_gained.values()) - g0)})
        return {
            "op": "events", "id": f"e{k}", "dt": dt, "timeout": timeout, "vehicles": vehicles, "moves": moves, "charges": charges, "loads": loads,
            "adds": adds, "cancels": cancels, "pickups": pickups, "dropoffs": dropoffs,
            "remaining": [num("r", r) for r in sorted(rp.s.requests.keys())],
            # (a ServicingTrip whose route is used up has dropped its passengers off in this very step; it turns Idle in the next one)
            "inService": [num("r", v.vehicle_state.request.id) for v in rp.s.vehicles.values()
                          if type(v.vehicle_state).__name__ == "ServicingTrip" and len(v.vehicle_state.route) > 0],
            "summaryRequests": int(summary.get("total_requests", -1)), "summaryCancelled": int(summary.get("cancelled_requests", -1)),
            "badLines": bad_lines[:5], "configMsgs": config_msgs, "raised": None,
            "meta": {**variant, "events": kinds, "summary_keys": sorted(summary.keys())[:30]},
        }
    finally:
        shutil.rmtree(out, ignore_errors=True)


def gen_case(rng: random.Random, k: int) -> Dict[str, Any]:
    os.environ["TQDM_DISABLE"] = "1"
    state = rng.getstate()
    with contextlib.redirect_stdout(io.StringIO()), contextlib.redirect_stderr(io.StringIO()):
        try:
            return _gen_case(rng, k)
        except Exception as e:
            rng.setstate(state)
            return {"op": "events", "id": f"e{k}", "dt": 1, "timeout": 0, "vehicles": [], "moves": [], "charges": [], "loads": [], "adds": [], "cancels": [],
                    "pickups": [], "dropoffs": [], "remaining": [], "inService": [], "summaryRequests": -1, "summaryCancelled": -1, "badLines": [],
                    "raised": f"{type(e).__name__}: {e}"[:300], "meta": {"events": {}}}


def worker(args) -> Dict[str, Any]:
    logging.disable(logging.CRITICAL)
    from .lean import run_driver

    seed, count = args
    rng = random.Random(seed)
    recs = [gen_case(rng, seed * 100000 + i) for i in range(count)]
    outs = run_driver(recs)
    findings = []
    shapes = set()
    n_events = 0
    for r, o in zip(recs, outs):
        ev = r["meta"].get("events", {})
        n_events += sum(ev.values())
        shapes.add((r["meta"].get("yaml"), r["dt"], tuple(sorted(k for k, v in ev.items() if v)), min(len(r["pickups"]), 3), min(len(r["cancels"]), 3), min(len(r["charges"]), 3) > 0))
        if r["raised"]:
            findings.append({"id": r["id"], "kind": "mon", "record": r, "text": [f"C19/run-stopped| {r['raised']}"]})
        if r["badLines"]:
            findings.append({"id": r["id"], "kind": "mon", "record": r, "text": [f"C19/unparsable-record| {b}" for b in r["badLines"]]})
        if r.get("configMsgs"):
            findings.append({"id": r["id"], "kind": "mon", "record": r, "text": r["configMsgs"]})
        if "error" in o:
            findings.append({"id": r["id"], "kind": "driver-error", "text": [o["error"][:300]], "record": r})
        if "error" not in o and o.get("mon"):
            findings.append({"id": r["id"], "kind": "mon", "text": o["mon"][:8], "record": r})
    s = recs[0]
    return {"n": len(recs), "steps": sum(r["meta"].get("n", 0) for r in recs), "rows": n_events, "findings": fw.pick(findings, 20), "n_findings": len(findings),
            "shapes": sorted(shapes, key=str), "sample": {"meta": s["meta"], "pickups": s["pickups"][:4], "vehicles": s["vehicles"][:3]}}
