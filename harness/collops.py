"""Function-level correspondence for the index operations of simulation_state_ops (C08):
random add / modify / remove sequences on vehicles, requests, stations and bases of a real
SimulationState; all eight index maps compared with the Lean `Coll` model after every operation."""
from __future__ import annotations

from . import framework as fw  # noqa: E402

import logging
import random
from typing import Any, Dict, List

import h3
import immutables
from returns.result import Failure

from nrel.hive.model.base import Base
from nrel.hive.model.entity_position import EntityPosition
from nrel.hive.model.membership import Membership
from nrel.hive.model.roadnetwork.haversine_roadnetwork import HaversineRoadNetwork
from nrel.hive.model.sim_time import SimTime
from nrel.hive.model.station.station import Station
from nrel.hive.state.simulation_state import simulation_state_ops as ops
from nrel.hive.state.simulation_state.simulation_state import SimulationState

from nrel.hive.util.h3_ops import H3Ops

from .encode import Interner, enc_colldict, q
from .world import cell_palette

AT_KEY = {"veh": "vehicles", "req": "requests", "stn": "station", "base": "base"}


def _entities(kind: str, sim):
    return {"veh": sim.vehicles, "req": sim.requests, "stn": sim.stations, "base": sim.bases}[kind]


def _maps(kind: str, sim):
    return {
        "veh": (sim.v_locations, sim.v_search),
        "req": (sim.r_locations, sim.r_search),
        "stn": (sim.s_locations, sim.s_search),
        "base": (sim.b_locations, sim.b_search),
    }[kind]


def snapshot(n: Interner, kind: str, sim) -> Dict[str, Any]:
    loc, search = _maps(kind, sim)
    return {
        "ents": [[n.get(kind, i), n.cell(e.geoid)] for i, e in sorted(_entities(kind, sim).items())],
        "loc": enc_colldict(n, loc, kind),
        "search": enc_colldict(n, search, kind),
    }


def lookups(n: Interner, kind: str, sim, cells: List[str], rng: random.Random) -> Dict[str, Any]:
    """the read side of the indexes on this state: `at_geoid` at every palette cell,
    `get_entities_at_cell` at every palette search cell and one of their neighbours, and a few ring
    searches (`nearest_entity`) with the rings h3 produced"""
    ents = tuple(e for _, e in sorted(_entities(kind, sim).items()))
    _, search = _maps(kind, sim)
    res = sim.sim_h3_search_resolution
    out: Dict[str, Any] = {"at": [], "search": [], "near": []}
    for c in cells:
        try:
            resp = sim.at_geoid(c)
            ids = sorted(n.get(kind, i) for i in resp[AT_KEY[kind]])
            others = sum(len(v) for key, v in resp.items() if key != AT_KEY[kind])
            out["at"].append({"cell": n.cell(c), "ids": ids, "others": others})
        except Exception:
            out["at"].append({"cell": n.cell(c), "ids": None, "others": 0})
    scs = sorted({h3.h3_to_parent(c, res) for c in cells})
    extra = sorted(h3.k_ring(scs[0], 1) - set(scs))
    for sc in scs + extra[:1]:
        try:
            found = H3Ops.get_entities_at_cell(sc, search, ents)
            out["search"].append({"cell": n.cell(sc), "ids": [n.get(kind, e.id) for e in found]})
        except Exception:
            out["search"].append({"cell": n.cell(sc), "ids": None})
    if ents:
        relevant = set(search.keys()) | {h3.h3_to_parent(e.geoid, res) for e in ents} | set(scs)
        k_dist_km = h3.edge_length(res, unit="km") * 2
        for _ in range(2):
            origin = rng.choice(cells)
            mode = rng.choice(["one", "one", "all", "some"])
            if mode == "one":
                valid = {rng.choice(ents).id}
            elif mode == "all":
                valid = {e.id for e in ents}
            else:
                valid = {e.id for e in ents if rng.random() < 0.5}
            max_k = rng.choice([0, 1, 2, 3])
            max_km = max_k * k_dist_km * 0.999 if max_k else 0.0
            so = h3.h3_to_parent(origin, res)
            rings = [[n.cell(c) for c in sorted(h3.k_ring(so, k)) if c in relevant] for k in range(max_k + 1)]
            dist = {e.id: H3Ops.great_circle_distance(origin, e.geoid) for e in ents}
            try:
                r = H3Ops.nearest_entity(geoid=origin, entities=ents, entity_search=search, sim_h3_search_resolution=res,
                                         distance_function=lambda e: dist[e.id], is_valid=lambda e: e.id in valid,
                                         max_search_distance_km=max_km)
                got = -1 if r is None else n.get(kind, r.id)
            except Exception:
                got = -2
            out["near"].append({"origin": n.cell(origin), "rings": rings, "valid": sorted(n.get(kind, i) for i in valid),
                                "dist": [[n.get(kind, i), q(d)] for i, d in sorted(dist.items())], "got": got})
    return out


def gen_case(rng: random.Random, k: int, w) -> Dict[str, Any]:
    """one op sequence on one entity kind; `w` is a harness.world.World used as an entity factory"""
    kind = rng.choice(["veh", "veh", "req", "req", "stn", "base"])
    search_res = rng.choice([7, 9, 12])
    cells = cell_palette(rng, n_search=3, per_search=3, search_res=search_res)
    n = Interner(search_res)
    net = HaversineRoadNetwork(sim_h3_resolution=15)
    sim = SimulationState(road_network=net, sim_time=SimTime.build(0), sim_timestep_duration_seconds=60,
                          sim_h3_location_resolution=15, sim_h3_search_resolution=search_res)
    ids = [f"e{i:02d}" for i in range(5)]
    n.fix(kind, ids)
    template_v = next(iter(w.sim0.vehicles.values()))
    template_s = next(iter(w.sim0.stations.values()))
    template_b = next(iter(w.sim0.bases.values()))
    template_r = w.new_request(w.sim0)

    def make(eid: str, cell: str, tag: int):
        pos = EntityPosition(f"{cell}-{cell}", cell)
        from dataclasses import replace

        if kind == "veh":
            return replace(template_v, id=eid, position=pos, balance=float(tag))
        if kind == "req":
            return replace(template_r, id=eid, position=pos, value=float(tag))
        if kind == "stn":
            return replace(template_s, id=eid, position=pos, balance=float(tag))
        return replace(template_b, id=eid, position=pos, total_stalls=tag + 1, available_stalls=tag + 1)

    add = {"veh": ops.add_vehicle_safe, "req": ops.add_request_safe, "stn": ops.add_station_safe, "base": ops.add_base_safe}[kind]
    mod = {"veh": ops.modify_vehicle_safe, "req": ops.modify_request_safe, "stn": ops.modify_station_safe, "base": ops.modify_base_safe}[kind]
    rem = {"veh": ops.remove_vehicle_safe, "req": ops.remove_request_safe, "stn": ops.remove_station_safe, "base": ops.remove_base_safe}[kind]
    steps: List[Dict[str, Any]] = []
    n_ops = rng.randint(5, 40)
    allow_readd = rng.random() < 0.3
    for j in range(n_ops):
        present = sorted(_entities(kind, sim).keys())
        absent = [i for i in ids if i not in present]
        r = rng.random()
        if r < 0.3 and (absent or allow_readd):
            eid = rng.choice(absent) if (absent and not (allow_readd and rng.random() < 0.4 and present)) else rng.choice(present)
            op, args = "add", (eid, rng.choice(cells), j)
        elif r < 0.75:
            eid = rng.choice(present) if (present and rng.random() < 0.93) else rng.choice(ids)
            cur = _entities(kind, sim).get(eid)
            cell = cur.geoid if (cur is not None and rng.random() < 0.3) else rng.choice(cells)
            # (a quarter of the modifications come in through the co-simulation API, runner_payload_ops.modify_entities_safe)
            op, args = ("modify" if rng.random() < 0.75 else "rp_modify"), (eid, cell, j)
        else:
            eid = rng.choice(present) if (present and rng.random() < 0.9) else rng.choice(ids)
            op, args = "remove", (eid,)
        try:
            if op == "add":
                res = add(sim, make(*args))
            elif op == "modify":
                res = mod(sim, make(*args))
            elif op == "rp_modify":
                from nrel.hive.runner import runner_payload_ops
                from nrel.hive.runner.runner_payload import RunnerPayload

                res = runner_payload_ops.modify_entities_safe(RunnerPayload(sim, None, None), [make(*args)]).map(lambda rp: rp.s)
            else:
                res = rem(sim, args[0])
            if isinstance(res, Failure):
                outcome = "error"
            else:
                outcome = "ok"
                sim = res.unwrap()
        except Exception:
            outcome = "raise"
        step = {"op": "modify" if op == "rp_modify" else op, "via": op, "id": n.get(kind, args[0]), "outcome": outcome, "after": snapshot(n, kind, sim)}
        step["after"]["lookups"] = lookups(n, kind, sim, cells, rng)
        if op != "remove":
            step["cell"] = n.cell(args[1])
            step["tag"] = args[2]
        steps.append(step)
    return {"op": "coll", "id": f"c{k}", "kind": kind, "fixed": kind in ("stn", "base"), "parent": n.parent_table(), "steps": steps}


def worker(args) -> Dict[str, Any]:
    logging.disable(logging.CRITICAL)
    from .lean import run_driver
    from .world import World

    seed, count = args
    rng = random.Random(seed)
    w = World(random.Random(seed + 1))
    recs = [gen_case(rng, seed * 100000 + i, w) for i in range(count)]
    outs = run_driver(recs)
    findings = []
    shapes = set()
    n_ops = 0
    n_lookups = 0
    for r, o in zip(recs, outs):
        n_ops += len(r["steps"])
        for st in r["steps"]:
            shapes.add((r["kind"], st.get("via", st["op"]), st["outcome"]))
            lk = st["after"]["lookups"]
            n_lookups += len(lk["at"]) + len(lk["search"]) + len(lk["near"])
            for x in lk["near"]:
                shapes.add((r["kind"], "ring-search", "found" if x["got"] >= 0 else "none", min(len(x["rings"]), 3), min(len(x["valid"]), 2)))
        if "error" in o:
            findings.append({"id": r["id"], "kind": "driver-error", "text": [o["error"][:300]], "record": r})
        else:
            if o.get("diff"):
                findings.append({"id": r["id"], "kind": "diff", "text": o["diff"][:8], "record": r})
            if o.get("mon"):
                findings.append({"id": r["id"], "kind": "mon", "text": o["mon"][:8], "record": r})
    return {"n": len(recs), "ops": n_ops, "lookups": n_lookups, "findings": fw.pick(findings, 20), "n_findings": len(findings), "shapes": sorted(shapes),
            "sample": {"kind": recs[0]["kind"], "steps": [{k: s[k] for k in s if k != "after"} for s in recs[0]["steps"][:12]]}}
