"""Random histories: an adversarial controller drives the real step functions phase by phase;
every phase becomes one protocol record (pre-state, inputs, oracle answers, post-state, events)."""
from __future__ import annotations

import random
from typing import Any, Dict, List, Optional

from nrel.hive.dispatcher.instruction import instructions as I
from nrel.hive.state.simulation_state import simulation_state_ops
from nrel.hive.state.simulation_state.update.step_simulation_ops import (
    apply_instructions,
    perform_vehicle_state_updates,
)
from nrel.hive.state.simulation_state.update.cancel_requests import CancelRequests
from nrel.hive.state.vehicle_state.charge_queueing import ChargeQueueing
from nrel.hive.state.vehicle_state.charging_base import ChargingBase
from nrel.hive.state.vehicle_state.charging_station import ChargingStation
from nrel.hive.state.vehicle_state.reserve_base import ReserveBase
from nrel.hive.state.vehicle_state.dispatch_base import DispatchBase
from nrel.hive.state.vehicle_state.dispatch_station import DispatchStation
from nrel.hive.state.vehicle_state.dispatch_trip import DispatchTrip
from nrel.hive.state.vehicle_state.idle import Idle
from nrel.hive.state.vehicle_state.out_of_service import OutOfService
from nrel.hive.state.vehicle_state.repositioning import Repositioning
from nrel.hive.state.vehicle_state.servicing_trip import ServicingTrip
from nrel.hive.state.entity_state import entity_state_ops

from .encode import q, enc_instr, enc_sim
from .record import Oracle, enc_events, recording
from .world import CHARGERS, World


def _crow_km(a: str, b: str) -> float:
    """haversine distance between two cell centres, computed here (not by H3Ops)"""
    from math import asin, cos, radians, sin, sqrt

    import h3

    (lat1, lon1), (lat2, lon2) = h3.h3_to_geo(a), h3.h3_to_geo(b)
    lat1, lon1, lat2, lon2 = map(radians, (lat1, lon1, lat2, lon2))
    d = sin((lat2 - lat1) * 0.5) ** 2 + cos(lat1) * cos(lat2) * sin((lon2 - lon1) * 0.5) ** 2
    return 2 * 6371 * asin(sqrt(d))


def random_instruction(w: World, sim, vid: str, rng: random.Random):
    """any instruction kind, any target: biased toward existing and co-located targets, with a share
    of missing and remote ones"""
    v = sim.vehicles[vid]
    kind = rng.choice(
        ["idle", "trip", "trip", "station", "station", "charge_s", "charge_s", "charge_b", "charge_b",
         "base", "repos", "reserve", "reserve", "oos", "pool"]
    )
    if getattr(w, "queue_scenario", False):
        # contention for the single plug type: arrivals (direct or through DispatchStation, which
        # queues at a full station), departures, abandonments, a few excursions
        kind = rng.choice(["station", "station", "station", "charge_s", "idle", "idle", "repos", "oos", "base"])

    if getattr(w, "base_scenario", False):
        kind = rng.choice(["charge_b", "charge_b", "charge_b", "reserve", "reserve", "idle", "repos", "charge_s"])

    def pick(ids, here=None, missing="x999"):
        r = rng.random()
        if r < 0.06 or not ids:
            return missing
        if here and r < 0.6:
            return rng.choice(here)
        return rng.choice(ids)

    stations_here = [s.id for s in sim.stations.values() if s.geoid == v.geoid]
    bases_here = [b.id for b in sim.bases.values() if b.geoid == v.geoid]
    charger = rng.choice(sorted(CHARGERS.keys()))
    if (getattr(w, "queue_scenario", False) or getattr(w, "base_scenario", False)) and rng.random() < 0.9:
        charger = sorted(next(iter(sim.stations.values())).state.keys())[0]
    if getattr(w, "queue_scenario", False) and kind in ("station", "charge_s") and rng.random() < 0.9:
        # the station the vehicle stands at (else any), and the plug type that station has
        sid = rng.choice(stations_here) if (stations_here and rng.random() < 0.8) else rng.choice(sorted(sim.stations.keys()))
        plug = sorted(sim.stations[sid].state.keys())[0]
        if kind == "station":
            return I.DispatchStationInstruction(vid, sid, plug)
        return I.ChargeStationInstruction(vid, sid, plug)
    if kind == "idle":
        return I.IdleInstruction(vid)
    if kind == "trip":
        return I.DispatchTripInstruction(vid, pick(sorted(sim.requests.keys()), missing="r9999"))
    if kind == "station":
        return I.DispatchStationInstruction(vid, pick(sorted(sim.stations.keys())), charger)
    if kind == "charge_s":
        return I.ChargeStationInstruction(vid, pick(sorted(sim.stations.keys()), stations_here), charger)
    if kind == "charge_b":
        return I.ChargeBaseInstruction(vid, pick(sorted(sim.bases.keys()), bases_here), charger)
    if kind == "base":
        return I.DispatchBaseInstruction(vid, pick(sorted(sim.bases.keys())))
    if kind == "repos":
        c = rng.choice(w.cells)
        r = rng.random()
        if r < 0.12:
            return I.RepositionInstruction(vid, rng.choice(["garbage", "a-b-c", f"{c}-nocell", ""]))
        if getattr(w, "link_ids", None):
            return I.RepositionInstruction(vid, rng.choice(w.link_ids))
        return I.RepositionInstruction(vid, f"{c}-{c}")
    if kind == "reserve":
        return I.ReserveBaseInstruction(vid, pick(sorted(sim.bases.keys()), bases_here))
    if kind == "oos":
        return I.OutOfServiceInstruction(vid)
    return I.DispatchPoolingTripInstruction(vid, ())


def random_state(w: World, sim, vid: str, rng: random.Random):
    """any activity with any arguments, as a controller-defined instruction could propose it:
    targets present or missing, co-located or remote; routes from the vehicle, from somewhere
    else, or empty"""
    v = sim.vehicles[vid]
    net = sim.road_network

    def route_to(pos):
        r = rng.random()
        if pos is None or r < 0.1:
            return ()
        if r < 0.8:
            return net.route(v.position, pos)
        other = net.position_from_geoid(rng.choice(w.cells))
        return net.route(other, pos)            # a route that does not start at the vehicle

    def pick(m):
        ids = sorted(m.keys())
        return rng.choice(ids) if ids and rng.random() < 0.93 else "x999"

    charger = rng.choice(sorted(CHARGERS.keys()))
    kind = rng.choice(["idle", "oos", "repos", "dtrip", "strip", "strip", "dstn", "cstn", "queue", "dbase", "rbase", "cbase"])
    if isinstance(v.vehicle_state, DispatchTrip) and rng.random() < 0.6:
        # a vehicle on its way to a request: the begin-trip proposal for that very request, before it has arrived
        r = sim.requests.get(v.vehicle_state.request_id)
        if r is not None:
            return ServicingTrip.build(vid, r, sim.sim_time, net.route(r.position, r.destination_position))
    if kind == "idle":
        return Idle.build(vid)
    if kind == "oos":
        return OutOfService.build(vid)
    if kind == "repos":
        return Repositioning.build(vid, route_to(net.position_from_geoid(rng.choice(w.cells))))
    if kind == "dtrip":
        rid = pick(sim.requests)
        r = sim.requests.get(rid)
        return DispatchTrip.build(vid, rid, route_to(None if r is None else r.position))
    if kind == "strip":
        rid = pick(sim.requests)
        r = sim.requests.get(rid)
        if r is None:
            return Idle.build(vid)
        rr = rng.random()
        route = net.route(r.position, r.destination_position) if rr < 0.8 else (net.route(v.position, r.destination_position) if rr < 0.9 else ())
        return ServicingTrip.build(vid, r, sim.sim_time, route)
    if kind == "dstn":
        sid = pick(sim.stations)
        st = sim.stations.get(sid)
        return DispatchStation.build(vid, sid, route_to(None if st is None else st.position), charger)
    if kind == "cstn":
        return ChargingStation.build(vid, pick(sim.stations), charger)
    if kind == "queue":
        return ChargeQueueing.build(vid, pick(sim.stations), charger, sim.sim_time)
    if kind == "dbase":
        bid = pick(sim.bases)
        b = sim.bases.get(bid)
        return DispatchBase.build(vid, bid, route_to(None if b is None else b.position))
    if kind == "rbase":
        return ReserveBase.build(vid, pick(sim.bases))
    return ChargingBase.build(vid, pick(sim.bases), charger)


def controller(w: World, sim, rng: random.Random, p_instr: float) -> List[Any]:
    out = []
    for vid in sorted(sim.vehicles.keys()):
        p = p_instr
        if getattr(w, "queue_scenario", False):
            # keep queues alive: waiting vehicles are mostly left alone, charging ones leave now and
            # then (which frees a plug), everybody else is sent to the station often
            st = sim.vehicles[vid].vehicle_state
            p = 0.04 if isinstance(st, ChargeQueueing) else (0.12 if isinstance(st, ChargingStation) else 0.6)
        if rng.random() < p:
            out.append(random_instruction(w, sim, vid, rng))
    if rng.random() < 0.05:
        out.append(I.IdleInstruction("v999"))
    # the real pipeline hands them over in descending vehicle-id order; any order is legal here
    if rng.random() < 0.5:
        out.reverse()
    return out


def impl_raised(exc: BaseException) -> Optional[Dict[str, Any]]:
    """an exception that comes out of the implementation (a frame of /repo on the stack, raised
    below the harness), as a small dictionary; None when the harness itself is at fault"""
    import traceback as _tb

    frames = _tb.extract_tb(exc.__traceback__)
    if not frames or not any(f.filename.startswith("/repo/") for f in frames):
        return None
    if "/harness/" in frames[-1].filename:
        return None
    return {"exc": f"{type(exc).__name__}: {exc}"[:300],
            "where": [f"{f.filename}:{f.lineno} {f.name}" for f in frames if f.filename.startswith("/repo/")][-4:]}


class _Abort(Exception):
    pass


def run_history(w: World, rng: random.Random, steps: int, *, p_instr: float = 0.45, p_req: float = 0.5,
                p_probe: float = 0.5, tag: str = "") -> List[Dict[str, Any]]:
    """returns protocol records; each has `id` = (tag, step, phase)"""
    sim = w.sim0
    env = w.env
    n = w.n
    recs: List[Dict[str, Any]] = [dict(w.mechs_cfg(), id=f"{tag}:cfg")]
    oracle = Oracle()
    cancel = CancelRequests()
    import json as _json

    retained: List[Any] = []   # (record id, the state object as obtained, its encoding at that moment)
    with recording(oracle):
        raised_info: List[Dict[str, Any]] = []
        k = 0
        try:
            for k in range(steps):
                if k % 5 == 0:
                    retained.append((f"{tag}:{k}:pre", sim, _json.dumps(enc_sim(n, sim), sort_keys=True)))
                # --- request arrivals / cancellations (real state ops) ---
                pre = sim
                env.reporter.reports = []
                adds = []
                oracle.reset()
                if rng.random() < p_req:
                    for _ in range(rng.choice([1, 1, 2, 4])):
                        r = w.new_request(sim, pooling=rng.random() < 0.08)
                        sim = simulation_state_ops.add_request_safe(sim, r).unwrap()
                        adds.append(r)
                if rng.random() < 0.3:
                    sim, _ = cancel.update(sim, env)
                from nrel.hive.reporting.report_type import ReportType as _RT

                cancels = [x.report["request_id"] for x in env.reporter.reports if x.report_type == _RT.CANCEL_REQUEST_EVENT]
                from .encode import enc_request

                recs.append(
                    {
                        "op": "pre",
                        "id": f"{tag}:{k}:pre",
                        "pre": enc_sim(n, pre),
                        "adds": [enc_request(n, r) for r in adds],
                        "cancels": [n.get("req", c) for c in cancels],
                        "post": enc_sim(n, sim),
                        "events": [{"addRequest": {"r": n.get("req", r.id)}} for r in adds] + enc_events(n, env.reporter.reports),
                        "oracle": oracle.encode(n),
                        "skip": False,
                    }
                )
                env.reporter.reports = []
                # --- probe (C09): one instruction applied alone to the current state, result discarded ---
                if sim.vehicles and rng.random() < p_probe:
                    pv = rng.choice(sorted(sim.vehicles.keys()))
                    pi = random_instruction(w, sim, pv, rng)
                    oracle.reset()
                    probe_raised = False
                    try:
                        probe_post = apply_instructions(sim, env, (pi,))
                    except Exception:
                        probe_raised = True
                    recs.append(
                        {
                            "op": "apply",
                            "probe": True,
                            "id": f"{tag}:{k}:probe",
                            "pre": enc_sim(n, sim),
                            "instrs": [enc_instr(n, pi)],
                            "post": None if probe_raised else enc_sim(n, probe_post),
                            "events": enc_events(n, env.reporter.reports),
                            "oracle": oracle.encode(n),
                            "skip": oracle.boundary_hit,
                        }
                    )
                    env.reporter.reports = []
                # --- transition probe: exit + enter of an arbitrary activity, result discarded ---
                if sim.vehicles and rng.random() < p_probe * 0.8:
                    from .encode import enc_act

                    pv = rng.choice(sorted(sim.vehicles.keys()))
                    travelling = [x for x in sorted(sim.vehicles.keys()) if isinstance(sim.vehicles[x].vehicle_state, DispatchTrip)]
                    if travelling and rng.random() < 0.4:
                        pv = rng.choice(travelling)
                    oracle.reset()
                    nxt = None
                    outcome = "raise"
                    t_post = None
                    try:
                        nxt = random_state(w, sim, pv, rng)
                        err, t_post = entity_state_ops.transition_previous_to_next(sim, env, sim.vehicles[pv].vehicle_state, nxt)
                        outcome = "error" if err is not None else ("rejected" if t_post is None else "ok")
                    except Exception:
                        outcome = "raise"
                    if nxt is not None:
                        recs.append(
                            {
                                "op": "transition",
                                "probe": True,
                                "id": f"{tag}:{k}:transition",
                                "pre": enc_sim(n, sim),
                                "veh": n.get("veh", pv),
                                "next": enc_act(n, nxt),
                                "outcome": outcome,
                                "post": enc_sim(n, t_post) if outcome == "ok" else None,
                                "events": enc_events(n, env.reporter.reports),
                                "oracle": oracle.encode(n),
                                "skip": oracle.boundary_hit,
                            }
                        )
                    env.reporter.reports = []
                # --- instruction phase ---
                instrs = controller(w, sim, rng, p_instr)
                oracle.reset()
                pre = sim
                raised = False
                try:
                    sim = apply_instructions(sim, env, tuple(instrs))
                except Exception:
                    raised = True
                recs.append(
                    {
                        "op": "apply",
                        "id": f"{tag}:{k}:apply",
                        "pre": enc_sim(n, pre),
                        "instrs": [enc_instr(n, i) for i in instrs],
                        "post": None if raised else enc_sim(n, sim),
                        "events": enc_events(n, env.reporter.reports),
                        "oracle": oracle.encode(n),
                        "skip": oracle.boundary_hit,
                    }
                )
                env.reporter.reports = []
                if not raised and instrs:
                    # independence (C09): which instructions took effect in the phase, and - for one that did
                    # not although nothing before it did - whether it is accepted when applied alone to the
                    # same state (then only another vehicle's rejected instruction can have disturbed it)
                    taken = [sim.applied_instructions.get(i.vehicle_id) is i for i in instrs]
                    alone = []
                    for idx, i in enumerate(instrs):
                        if not taken[idx] and not any(taken[:idx]):
                            try:
                                solo = apply_instructions(pre, env, (i,))
                                alone.append([idx, solo.applied_instructions.get(i.vehicle_id) is i])
                            except Exception:
                                alone.append([idx, False])
                    recs[-1]["taken"] = taken
                    recs[-1]["alone"] = alone
                    env.reporter.reports = []
                # --- update phase ---
                oracle.reset()
                pre = sim
                # the order in which the phase steps the vehicles is observed (C18: processing order; C01)
                from nrel.hive.state.simulation_state.update import step_simulation_ops as _sso

                stepped: List[str] = []
                _real_step = _sso.step_vehicle

                def _spy_step(sim_, env_, veh_):
                    stepped.append(veh_.id)
                    return _real_step(sim_, env_, veh_)

                _sso.step_vehicle = _spy_step
                try:
                    sim = perform_vehicle_state_updates(sim, env)
                finally:
                    _sso.step_vehicle = _real_step
                crow = []
                for vid_, v_ in sorted(sim.vehicles.items()):
                    p_ = pre.vehicles.get(vid_)
                    if p_ is not None and p_.geoid != v_.geoid:
                        crow.append([n.get("veh", vid_), q(_crow_km(p_.geoid, v_.geoid))])
                recs.append(
                    {
                        "op": "update",
                        "id": f"{tag}:{k}:update",
                        "order": [n.get("veh", x) for x in stepped],
                        "crow": crow,
                        "pre": enc_sim(n, pre),
                        "post": enc_sim(n, sim),
                        "events": enc_events(n, env.reporter.reports),
                        "oracle": oracle.encode(n),
                        "skip": oracle.boundary_hit,
                    }
                )
                env.reporter.reports = []
                sim = simulation_state_ops.tick(sim)
        except Exception as e:  # the implementation aborted a phase the model completes: a finding, not a harness failure
            info = impl_raised(e)
            if info is None:
                raise
            info["id"] = f"{tag}:{k}"
            info["seed_tag"] = tag
            raised_info.append(info)
            env.reporter.reports = []
    # C16 (supporting evidence): a state obtained earlier reads exactly the same after all later phases
    changed = [rid for rid, obj, enc in retained if _json.dumps(enc_sim(n, obj), sort_keys=True) != enc]
    recs[0]["retained_changed"] = changed
    recs[0]["retained_checked"] = len(retained)
    recs[0]["impl_raised"] = raised_info
    return recs
