"""Random histories: an adversarial controller drives the real step functions phase by phase;
every phase becomes one protocol record (pre-state, inputs, oracle answers, post-state, events)."""
from __future__ import annotations

import random
from typing import Any, Dict, List, Optional

from nrel.hive.dispatcher.instruction import instructions as I
from nrel.hive.state.simulation_state import simulation_state_ops
from nrel.hive.state.simulation_state.update.step_simulation_ops import (
    apply_instructions,
    perform_vehicle_state_updates,
)
from nrel.hive.state.simulation_state.update.cancel_requests import CancelRequests
from nrel.hive.state.vehicle_state.charge_queueing import ChargeQueueing
from nrel.hive.state.vehicle_state.charging_base import ChargingBase
from nrel.hive.state.vehicle_state.charging_station import ChargingStation
from nrel.hive.state.vehicle_state.reserve_base import ReserveBase

from .encode import enc_instr, enc_sim
from .record import Oracle, enc_events, recording
from .world import CHARGERS, World


def random_instruction(w: World, sim, vid: str, rng: random.Random):
    """any instruction kind, any target: biased toward existing and co-located targets, with a share
    of missing and remote ones"""
    v = sim.vehicles[vid]
    kind = rng.choice(
        ["idle", "trip", "trip", "station", "station", "charge_s", "charge_s", "charge_b", "charge_b",
         "base", "repos", "reserve", "reserve", "oos", "pool"]
    )
    if getattr(w, "queue_scenario", False):
        # contention for the single plug type: arrivals (direct or through DispatchStation, which
        # queues at a full station), departures, abandonments, a few excursions
        kind = rng.choice(["station", "station", "station", "charge_s", "idle", "idle", "repos", "oos", "base"])

    def pick(ids, here=None, missing="x999"):
        r = rng.random()
        if r < 0.06 or not ids:
            return missing
        if here and r < 0.6:
            return rng.choice(here)
        return rng.choice(ids)

    stations_here = [s.id for s in sim.stations.values() if s.geoid == v.geoid]
    bases_here = [b.id for b in sim.bases.values() if b.geoid == v.geoid]
    charger = rng.choice(sorted(CHARGERS.keys()))
    if getattr(w, "queue_scenario", False) and rng.random() < 0.9:
        charger = sorted(next(iter(sim.stations.values())).state.keys())[0]
    if kind == "idle":
        return I.IdleInstruction(vid)
    if kind == "trip":
        return I.DispatchTripInstruction(vid, pick(sorted(sim.requests.keys()), missing="r9999"))
    if kind == "station":
        return I.DispatchStationInstruction(vid, pick(sorted(sim.stations.keys())), charger)
    if kind == "charge_s":
        return I.ChargeStationInstruction(vid, pick(sorted(sim.stations.keys()), stations_here), charger)
    if kind == "charge_b":
        return I.ChargeBaseInstruction(vid, pick(sorted(sim.bases.keys()), bases_here), charger)
    if kind == "base":
        return I.DispatchBaseInstruction(vid, pick(sorted(sim.bases.keys())))
    if kind == "repos":
        c = rng.choice(w.cells)
        r = rng.random()
        if r < 0.12:
            return I.RepositionInstruction(vid, rng.choice(["garbage", "a-b-c", f"{c}-nocell", ""]))
        return I.RepositionInstruction(vid, f"{c}-{c}")
    if kind == "reserve":
        return I.ReserveBaseInstruction(vid, pick(sorted(sim.bases.keys()), bases_here))
    if kind == "oos":
        return I.OutOfServiceInstruction(vid)
    return I.DispatchPoolingTripInstruction(vid, ())


def controller(w: World, sim, rng: random.Random, p_instr: float) -> List[Any]:
    out = []
    for vid in sorted(sim.vehicles.keys()):
        if rng.random() < p_instr:
            out.append(random_instruction(w, sim, vid, rng))
    if rng.random() < 0.05:
        out.append(I.IdleInstruction("v999"))
    # the real pipeline hands them over in descending vehicle-id order; any order is legal here
    if rng.random() < 0.5:
        out.reverse()
    return out


def run_history(w: World, rng: random.Random, steps: int, *, p_instr: float = 0.45, p_req: float = 0.5,
                p_probe: float = 0.5, tag: str = "") -> List[Dict[str, Any]]:
    """returns protocol records; each has `id` = (tag, step, phase)"""
    sim = w.sim0
    env = w.env
    n = w.n
    recs: List[Dict[str, Any]] = [dict(w.mechs_cfg(), id=f"{tag}:cfg")]
    oracle = Oracle()
    cancel = CancelRequests()
    import json as _json

    retained: List[Any] = []   # (record id, the state object as obtained, its encoding at that moment)
    with recording(oracle):
        for k in range(steps):
            if k % 5 == 0:
                retained.append((f"{tag}:{k}:pre", sim, _json.dumps(enc_sim(n, sim), sort_keys=True)))
            # --- request arrivals / cancellations (real state ops) ---
            pre = sim
            env.reporter.reports = []
            adds = []
            oracle.reset()
            if rng.random() < p_req:
                for _ in range(rng.choice([1, 1, 2, 4])):
                    r = w.new_request(sim, pooling=rng.random() < 0.08)
                    sim = simulation_state_ops.add_request_safe(sim, r).unwrap()
                    adds.append(r)
            if rng.random() < 0.3:
                sim, _ = cancel.update(sim, env)
            from nrel.hive.reporting.report_type import ReportType as _RT

            cancels = [x.report["request_id"] for x in env.reporter.reports if x.report_type == _RT.CANCEL_REQUEST_EVENT]
            from .encode import enc_request

            recs.append(
                {
                    "op": "pre",
                    "id": f"{tag}:{k}:pre",
                    "pre": enc_sim(n, pre),
                    "adds": [enc_request(n, r) for r in adds],
                    "cancels": [n.get("req", c) for c in cancels],
                    "post": enc_sim(n, sim),
                    "events": [{"addRequest": {"r": n.get("req", r.id)}} for r in adds] + enc_events(n, env.reporter.reports),
                    "oracle": oracle.encode(n),
                    "skip": False,
                }
            )
            env.reporter.reports = []
            # --- probe (C09): one instruction applied alone to the current state, result discarded ---
            if sim.vehicles and rng.random() < p_probe:
                pv = rng.choice(sorted(sim.vehicles.keys()))
                pi = random_instruction(w, sim, pv, rng)
                oracle.reset()
                probe_raised = False
                try:
                    probe_post = apply_instructions(sim, env, (pi,))
                except Exception:
                    probe_raised = True
                recs.append(
                    {
                        "op": "apply",
                        "probe": True,
                        "id": f"{tag}:{k}:probe",
                        "pre": enc_sim(n, sim),
                        "instrs": [enc_instr(n, pi)],
                        "post": None if probe_raised else enc_sim(n, probe_post),
                        "events": enc_events(n, env.reporter.reports),
                        "oracle": oracle.encode(n),
                        "skip": oracle.boundary_hit,
                    }
                )
                env.reporter.reports = []
            # --- instruction phase ---
            instrs = controller(w, sim, rng, p_instr)
            oracle.reset()
            pre = sim
            raised = False
            try:
                sim = apply_instructions(sim, env, tuple(instrs))
            except Exception:
                raised = True
            recs.append(
                {
                    "op": "apply",
                    "id": f"{tag}:{k}:apply",
                    "pre": enc_sim(n, pre),
                    "instrs": [enc_instr(n, i) for i in instrs],
                    "post": None if raised else enc_sim(n, sim),
                    "events": enc_events(n, env.reporter.reports),
                    "oracle": oracle.encode(n),
                    "skip": oracle.boundary_hit,
                }
            )
            env.reporter.reports = []
            # --- update phase ---
            oracle.reset()
            pre = sim
            sim = perform_vehicle_state_updates(sim, env)
            recs.append(
                {
                    "op": "update",
                    "id": f"{tag}:{k}:update",
                    "pre": enc_sim(n, pre),
                    "post": enc_sim(n, sim),
                    "events": enc_events(n, env.reporter.reports),
                    "oracle": oracle.encode(n),
                    "skip": oracle.boundary_hit,
                }
            )
            env.reporter.reports = []
            sim = simulation_state_ops.tick(sim)
    # C16 (supporting evidence): a state obtained earlier reads exactly the same after all later phases
    changed = [rid for rid, obj, enc in retained if _json.dumps(enc_sim(n, obj), sort_keys=True) != enc]
    recs[0]["retained_changed"] = changed
    recs[0]["retained_checked"] = len(retained)
    return recs
