"""The initial layout (C02, and every other state invariant at time zero): generated vehicles,
stations, bases and fleets files - stations spread over several rows in any order, a plug type
listed more than once for a station, zero counts, counts written as floats, bases with and without
a station, repeated base ids, vehicles standing on stations and bases - are loaded by the real
`initialize` (Station.from_row / append_chargers / ChargerState.add_chargers, Base.from_row,
Vehicle.from_row, the fleets file). The Lean model `Hive.Layout.loadStations` is folded over the
same rows and compared; `Layout.viol` (installed = listed, everything free) and all state monitors
are evaluated on the loaded state."""
from __future__ import annotations

from . import framework as fw  # noqa: E402

import contextlib
import csv
import io
import logging
import os
import random
import shutil
import tempfile
from pathlib import Path
from typing import Any, Dict, List

import h3
import yaml
from pkg_resources import resource_filename

from nrel.hive.initialization.initialize_simulation import initialize
from nrel.hive.initialization.load import load_config
from nrel.hive.model.energy.energytype import EnergyType

from .encode import Interner, enc_sim, q
from .world import cell_palette

WORK = os.path.join(os.path.dirname(os.path.dirname(os.path.abspath(__file__))), ".work", "tmp")


def gen_case(rng: random.Random, k: int) -> Dict[str, Any]:
    os.environ["TQDM_DISABLE"] = "1"
    with contextlib.redirect_stdout(io.StringIO()), contextlib.redirect_stderr(io.StringIO()):
        return _gen_case(rng, k)


def _gen_case(rng: random.Random, k: int) -> Dict[str, Any]:
    os.makedirs(WORK, exist_ok=True)
    tmp = tempfile.mkdtemp(prefix="layout", dir=WORK)
    try:
        f = resource_filename("nrel.hive.resources.scenarios.denver_downtown", "denver_demo.yaml")
        cfg = load_config(f)
        search_res = rng.choice([7, 9])
        cells = cell_palette(rng, n_search=2, per_search=4, search_res=search_res)
        with open(cfg.input_config.chargers_file) as fh:
            charger_rows = list(csv.DictReader(fh))
        charger_ids = [r["charger_id"] for r in charger_rows]
        with open(cfg.input_config.mechatronics_file) as fh:
            mech_ids = sorted(yaml.safe_load(fh).keys())
        n = Interner(search_res)
        n.fix("chg", charger_ids + ["NO_SUCH_PLUG"])
        n.fix("mech", mech_ids)

        def latlon(c: str):
            lat, lon = h3.h3_to_geo(c)
            return repr(lat), repr(lon)

        # ---- stations: one to five stations, one to four rows each, rows interleaved
        n_st = rng.randint(1, 5)
        # in a third of the cases the ids are plain numbers, the same numbers for vehicles, stations and bases
        # (ids are unique per kind only; a fleets file lists them per kind)
        plain_ids = rng.random() < 0.33
        st_ids = [(str(i + 1) if plain_ids else f"s{i}") for i in range(n_st)]
        st_cell = {s: rng.choice(cells) for s in st_ids}
        rows: List[Dict[str, str]] = []
        few = rng.sample(charger_ids, min(len(charger_ids), rng.randint(1, 3)))
        unknown = rng.random() < 0.04
        for s in st_ids:
            for _ in range(rng.randint(1, 4)):
                c = rng.choice(few)
                if unknown and rng.random() < 0.3:
                    c = "NO_SUCH_PLUG"
                cnt = rng.choice([0, 1, 1, 2, 3, 5, 300])
                lat, lon = latlon(st_cell[s])
                rows.append({"station_id": s, "lat": lat, "lon": lon, "charger_count": rng.choice([str(cnt), f"{cnt}.0"]), "charger_id": c,
                             "on_shift_access": rng.choice(["true", "false", "True", "FALSE"]), "_count": cnt})
        if rng.random() < 0.7:
            rng.shuffle(rows)
        # ---- bases
        n_b = rng.randint(1, 3)
        base_rows = []
        for i in range(n_b):
            bid = str(i + 1) if plain_ids else f"b{i}"
            cell = rng.choice(cells + list(st_cell.values()))
            lat, lon = latlon(cell)
            stalls = rng.choice([0, 1, 2, 10])
            stn = rng.choice(["", "none", "None"] + st_ids)
            base_rows.append({"base_id": bid, "lat": lat, "lon": lon, "station_id": stn, "stall_count": str(stalls), "_cell": cell})
        if rng.random() < 0.15:
            dup = dict(rng.choice(base_rows))
            dup["stall_count"] = str(rng.choice([0, 3]))
            base_rows.append(dup)
        # ---- vehicles
        n_v = rng.randint(1, 6)
        veh_rows = []
        for i in range(n_v):
            cell = rng.choice(cells + list(st_cell.values()) + [b["_cell"] for b in base_rows])
            lat, lon = latlon(cell)
            row = {"vehicle_id": (str(i + 1) if plain_ids else f"v{i}"), "lat": lat, "lon": lon, "mechatronics_id": rng.choice(mech_ids),
                   "initial_soc": repr(rng.choice([0.05, 0.3, 0.99, 1.0])), "schedule_id": "", "home_base_id": ""}
            if rng.random() < 0.45:
                # a human driver with a home base (several may share one)
                row["schedule_id"] = "sched"
                row["home_base_id"] = rng.choice([b["base_id"] for b in base_rows] + ["b_missing"] if rng.random() < 0.9 else ["b_missing"])
            veh_rows.append(row)
        human_cols = any(r["schedule_id"] for r in veh_rows)
        # ---- fleets
        fleets_file = None
        fl: Dict[str, Any] = {}
        if rng.random() < 0.4:
            for fid in ["fA", "fB"]:
                fl[fid] = {"vehicles": [v["vehicle_id"] for v in veh_rows if rng.random() < 0.5],
                           "stations": [s for s in st_ids if rng.random() < 0.5],
                           "bases": sorted({b["base_id"] for b in base_rows if rng.random() < 0.5})}
            fleets_file = os.path.join(tmp, "fleets.yaml")
            with open(fleets_file, "w") as fh:
                yaml.safe_dump(fl, fh)
            n.fix("fleet", sorted(fl.keys()))
        files = {}
        for name, cols, data in (("stations", ["station_id", "lat", "lon", "charger_count", "charger_id", "on_shift_access"], rows),
                                 ("bases", ["base_id", "lat", "lon", "station_id", "stall_count"], base_rows),
                                 ("vehicles", ["vehicle_id", "lat", "lon", "mechatronics_id", "initial_soc"] + (["schedule_id", "home_base_id"] if human_cols else []), veh_rows)):
            files[name] = os.path.join(tmp, name + ".csv")
            with open(files[name], "w", newline="") as fh:
                wr = csv.DictWriter(fh, fieldnames=cols, extrasaction="ignore")
                wr.writeheader()
                wr.writerows(data)
        sched_file = os.path.join(tmp, "schedules.csv")
        with open(sched_file, "w") as fh:
            fh.write("schedule_id,start_time,end_time\nsched,08:00:00,17:00:00\n")
        cfg = cfg._replace(
            input_config=cfg.input_config._replace(vehicles_file=files["vehicles"], stations_file=files["stations"], bases_file=files["bases"],
                                                   fleets_file=fleets_file, schedules_file=sched_file),
            network=cfg.network._replace(network_type="euclidean"),
            sim=cfg.sim._replace(sim_h3_search_resolution=search_res),
            global_config=cfg.global_config._replace(log_run=False, log_states=False, log_events=False, log_stats=False, log_instructions=False,
                                                     log_station_capacities=False, log_time_step_stats=False, log_fleet_time_step_stats=False,
                                                     verbose=False),
        )
        cfg = cfg._replace(scenario_output_directory=Path(tmp) / "run")
        n.fix("stn", st_ids)
        n.fix("base", sorted({b["base_id"] for b in base_rows}))
        n.fix("veh", [v["vehicle_id"] for v in veh_rows])
        raised = None
        sim_enc = None
        member_msgs: List[str] = []
        try:
            sim, env = initialize(cfg)
            # private home-base memberships are interned as they come
            sim_enc = enc_sim(n, sim)
            # memberships: a vehicle holds the fleets the fleets file lists it in, plus the private
            # membership of its home base when that base exists - nothing is lost, nothing else is added
            base_ids_ = {b["base_id"] for b in base_rows}
            for r in veh_rows:
                vid = r["vehicle_id"]
                want = {f for f, d in fl.items() if vid in d["vehicles"]}
                if r["home_base_id"] and r["home_base_id"] in base_ids_:
                    want.add(f"{vid}_private_{r['home_base_id']}")
                got = set(sim.vehicles[vid].membership.memberships)
                if got != want:
                    for pfx in ("C10", "C12"):
                        member_msgs.append(f"{pfx}/layout-membership| vehicle {vid} holds memberships {sorted(got)} after loading; the fleets file and its home base give {sorted(want)}")
            # stations and bases: exactly the fleets the fleets file lists them in (next to private memberships)
            for kind, coll, ids_ in (("stations", sim.stations, sorted(sim.stations.keys())), ("bases", sim.bases, sorted(base_ids_))):
                for eid in ids_:
                    want = {f for f, d in fl.items() if eid in d[kind]}
                    got = {m_ for m_ in coll[eid].membership.memberships if m_ in fl}
                    if got != want:
                        member_msgs.append(f"C10/layout-membership| {kind[:-1]} {eid} holds the fleets {sorted(got)} after loading; the fleets file lists it in {sorted(want)}")
            # a base that is some human driver's home carries the private membership of (at least one of)
            # the vehicles homed there: it is not open to everybody
            for bid in sorted(base_ids_):
                homed = [r["vehicle_id"] for r in veh_rows if r["home_base_id"] == bid]
                if homed:
                    got = set(sim.bases[bid].membership.memberships)
                    if not any(f"{vid}_private_{bid}" in got for vid in homed):
                        member_msgs.append(f"C10/layout-home-base| base {bid} is the home base of {homed} but holds memberships {sorted(got)} after loading: "
                                           f"none of their private memberships, so it is open to vehicles it should refuse")
            # the station that serves a home base carries that private membership too (the home charger
            # is not open to everybody)
            for sid in sorted(sim.stations.keys()):
                cands = sorted(f"{r['vehicle_id']}_private_{b['base_id']}" for b in base_rows if b["station_id"] == sid
                               for r in veh_rows if r["home_base_id"] == b["base_id"])
                if cands:
                    got = set(sim.stations[sid].membership.memberships)
                    if not any(c in got for c in cands):
                        member_msgs.append(f"C10/layout-home-station| station {sid} serves the home base(s) of the drivers behind {cands} but holds memberships {sorted(got)} "
                                           f"after loading: none of their private memberships, so the home charger is open to vehicles it should refuse")
            # every plug type of a station has a meter of its energy type (otherwise what is dispensed there is
            # never counted: C05)
            for sid in sorted(sim.stations.keys()):
                st = sim.stations[sid]
                for cid, cs in sorted(st.state.items()):
                    if cs.charger.energy_type not in st.energy_dispensed:
                        member_msgs.append(f"C05/layout-meter| station {sid} has plugs {cid} ({cs.charger.energy_type.name.lower()}) but no meter for that energy type "
                                           f"after loading: energy dispensed there is not counted")
        except Exception as e:
            raised = f"{type(e).__name__}: {e}"[:200]
        link = lambda c: n.get("link", f"{c}-{c}")
        rec = {
            "op": "layout", "id": f"l{k}", "sim": sim_enc, "raised": raised, "memberMsgs": member_msgs,
            "rows": [{"sid": n.get("stn", r["station_id"]), "pos": {"link": link(st_cell[r["station_id"]]), "cell": n.cell(st_cell[r["station_id"]])},
                      "chg": n.get("chg", r["charger_id"]), "count": r["_count"], "onShift": r["on_shift_access"].lower() == "true"} for r in rows],
            "bases": [{"bid": n.get("base", b["base_id"]), "pos": {"link": link(b["_cell"]), "cell": n.cell(b["_cell"])}, "stalls": int(b["stall_count"]),
                       "station": None if b["station_id"].lower() in ("", "none") else n.get("stn", b["station_id"])} for b in base_rows],
            "catalogue": [[n.get("chg", r["charger_id"]), [r["energy_type"].lower() == "electric", q(float(r["rate"]))]] for r in charger_rows],
            "meta": {"stations": n_st, "rows": len(rows), "repeated_plug": len({(r["station_id"], r["charger_id"]) for r in rows}) < len(rows),
                     "bases": len(base_rows), "vehicles": n_v, "fleets": fleets_file is not None, "unknown_plug": any(r["charger_id"] == "NO_SUCH_PLUG" for r in rows)},
        }
        rec["parent"] = n.parent_table()
        return rec
    finally:
        shutil.rmtree(tmp, ignore_errors=True)


def worker(args) -> Dict[str, Any]:
    logging.disable(logging.CRITICAL)
    from .lean import run_driver

    seed, count = args
    rng = random.Random(seed)
    recs = [gen_case(rng, seed * 100000 + i) for i in range(count)]
    outs = run_driver(recs)
    findings = []
    shapes = set()
    for r, o in zip(recs, outs):
        m = r["meta"]
        shapes.add((min(m["stations"], 3), m["repeated_plug"], m["fleets"], m["unknown_plug"], r["raised"] is not None, min(m["bases"], 3)))
        if r.get("memberMsgs"):
            findings.append({"id": r["id"], "kind": "mon", "record": r, "text": r["memberMsgs"][:6]})
        if r["raised"] and not m["unknown_plug"]:
            findings.append({"id": r["id"], "kind": "mon", "record": r, "text": [f"C02/run-stopped| loading the layout raised: {r['raised']}"]})
        if "error" in o:
            findings.append({"id": r["id"], "kind": "driver-error", "text": [o["error"][:300]], "record": r})
        else:
            if o.get("diff"):
                findings.append({"id": r["id"], "kind": "diff", "text": o["diff"][:8], "record": r})
            if o.get("mon"):
                findings.append({"id": r["id"], "kind": "mon", "text": o["mon"][:8], "record": r})
    s = recs[0]
    return {"n": len(recs), "steps": sum(r["meta"]["rows"] for r in recs), "rows": sum(r["meta"]["rows"] + r["meta"]["bases"] for r in recs),
            "findings": fw.pick(findings, 20), "n_findings": len(findings), "shapes": sorted(shapes, key=str),
            "sample": {"meta": s["meta"], "rows": s["rows"][:6], "bases": s["bases"][:3]}}
