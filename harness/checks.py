"""Per-property checks. Each `check_Cxx(tier, seed)` returns the process exit code."""
from __future__ import annotations

import json
import os
import re
from typing import Any, Callable, Dict, List, Optional

from . import framework as fw
from . import layers

# what part of a full-state disagreement belongs to which property (regex over the diff path)
SLICE = {
    "C02": r"\.act\.kind|\.plug\[\d+\]\.(avail|enq|total)|base\[\d+\]\.(avail|total)|^n(veh|stn|base)",
    "C03": r"^nreq|^req\[|\.act\.(kind|rid|req|dep)|\.balance|event (pickup|dropoff|add|cancel)|event lists differ|extra event",
    "C04": r"\.(level|gained|expended)|\.act\.kind|\.pos\.",
    "C05": r"\.balance|\.disp[EG]|\.price|\.gained|event charge|event pickup",
    "C06": r"\.pos\.|\.act\.route|\.odo|\.act\.kind|event move",
    "C07": r"\.act\.(kind|sid|bid|rid|cid)|\.pos\.|\.act\.route(\.len|\[\d+\]\.(start|stop|id))",
    "C08": r"Idx\.|^n(veh|req|stn|base)",
    "C09": r".",
    "C10": r"\.act\.kind|\.members",
    "C17": r"\.disp(Veh|Time)|\.act\.(kind|rid)|^nreq",
    "C18": r"\.act\.(kind|sid|cid|enq)|\.plug\[\d+\]\.(avail|enq)",
    "C19": r"event ",
}

HIST_BUDGET = {
    # tier: (histories, steps)
    "quick": (192, 30),
    "thorough": (1600, 60),
}


def history_seed_of(rec_id: str) -> Optional[int]:
    m = re.match(r"h(\d+):", rec_id)
    return int(m.group(1)) if m else None


def sig_of(msg: str) -> str:
    return msg.split("|", 1)[0].strip()


def hist_replay(f: Dict[str, Any], layer: Dict[str, Any], msgs: List[str]) -> Dict[str, Any]:
    return {
        "layer": "hist",
        "history_seed": history_seed_of(f["id"]),
        "steps": layer["steps"],
        "opts": layer.get("opts", {}),
        "record_id": f["id"],
        "messages": msgs,
        "how_to_replay": "./check <property> --replay <this file>  (regenerates the history from history_seed against the current /repo tree and re-evaluates model and monitors)",
        "record": f.get("record"),
    }


def use_hist_layer(v: fw.Verdict, prop: str, layer: Dict[str, Any], mon_props: List[str],
                   after_apply: Optional[List[str]] = None) -> bool:
    """feed monitor failures (→ violations) and sliced disagreements (→ broken correspondence) of a
    history layer into the verdict; returns True when the correspondence slice is intact.
    `after_apply` (C09): state monitors of other properties that fail right after an instruction
    phase or a single-instruction probe - an accepted instruction whose side effects are incomplete
    leaves counters / assignments / locations inconsistent (the state before the phase passed them)"""
    slice_re = re.compile(SLICE.get(prop, r"."))
    corr_ok = True
    for f in layer["findings"]:
        if f["kind"] == "mon":
            mine = [m for m in f["text"] if any(m.startswith(p + "/") for p in mon_props)]
            for m in mine:
                v.violation(sig_of(m), m, hist_replay(f, layer, mine))
            if after_apply and str(f.get("id", "")).rsplit(":", 1)[-1] in ("apply", "probe"):
                side = [m for m in f["text"] if any(m.startswith(p + "/") for p in after_apply)]
                for m in side:
                    msg = f"{prop}/side-effects| an applied instruction left the state inconsistent (not all of its side effects took place): {m}"
                    v.violation(f"{prop}/side-effects", msg, hist_replay(f, layer, [msg]))
        elif f["kind"] == "diff":
            mine = [d for d in f["text"] if slice_re.search(d.split(":", 1)[0]) or d.startswith(("structure differs", "model has extra", "impl has extra", "event", "model:", "impl:"))]
            if mine:
                corr_ok = False
                v.broken(f"correspondence (history layer) for {prop}: model and implementation disagree", hist_replay(f, layer, mine))
        elif f["kind"] == "driver-error":
            corr_ok = False
            v.broken("Lean driver could not process a record", {"record_id": f["id"], "messages": f["text"]})
    return corr_ok


def hist_coverage(layer: Dict[str, Any]) -> Dict[str, Any]:
    return {
        "evaluations": layer["records"],
        "distinct_nontrivial": len([t for t in layer["triples"] if t[0] != t[2] or t[1] != "update"]),
        "rule": "random histories (adversarial controller issuing any instruction to any vehicle, request arrivals and cancellations) run phase by phase "
                "through the real apply_instructions / perform_vehicle_state_updates; one evaluation = one phase compared on the whole canonical state with the Lean model "
                "and checked by the Lean monitors; distinct_nontrivial = distinct (previous activity, instruction kind or 'update', resulting activity) triples in which "
                "an instruction was applied or an update changed the activity",
        "samples": [layer["sample"]] if layer.get("sample") else [],
        "histories": layer["histories"],
        "steps_per_history": layer["steps"],
        "skipped_near_float_boundary": layer["skipped_near_boundary"],
        "transition_triples": ["→".join(t) for t in layer["triples"]][:400],
        "layer_wall_s": layer["wall_s"],
        "cache_hit": layer.get("cache_hit", False),
    }


DISPATCH_BUDGET = {"quick": 640, "thorough": 32000}


LAYOUT_BUDGET = {"quick": 320, "thorough": 16000}
# the invariants over the complete cycle (price updates and driver phases included) live in one module
EXTRA_TARGETS = {p: ["Properties.Full"] for p in ("C02", "C04", "C07", "C08", "C10", "C17")}
EXTRA_TARGETS["C03"] = ["Properties.C03Divert"]
NO_DIFFS = r"^\b$"      # matches no disagreement text: only the monitors of the layer are used
TIMED_REQUEST_DIFFS = r"admitted|cancelled|requests present"


def control_check(prop: str, tier: str, seed: int, *, mon_props: Optional[List[str]] = None,
                  targets: Optional[List[str]] = None, assumptions: Optional[List[str]] = None,
                  level: str = "proof", with_dispatcher: bool = False, with_contention: bool = False,
                  with_timed: bool = False, with_layout: bool = False, with_osm: bool = False) -> int:
    """the common shape: theorems about the control model + history correspondence + monitors"""
    v = fw.Verdict(prop, tier, seed, level)
    targets = targets or ([f"Properties.{prop}"] + EXTRA_TARGETS.get(prop, []))
    ps = fw.ProofStatus(prop, targets)
    n_hist, steps = HIST_BUDGET[tier]
    layer = layers.hist_layer(seed, n_hist, steps)
    corr_ok = use_hist_layer(v, prop, layer, mon_props or [prop])
    extra = []
    if with_contention:
        # dense queue and base-plug contention histories (the resource counters are under stress there)
        n_q, steps_q = QUEUE_BUDGET[tier]
        ql = layers.hist_layer(seed, n_q, steps_q, QUEUE_OPTS)
        n_b, steps_b = BASE_BUDGET[tier]
        bl = layers.hist_layer(seed, n_b, steps_b, BASE_OPTS)
        extra = [ql, bl]
        for lay in extra:
            corr_ok = use_hist_layer(v, prop, lay, mon_props or [prop]) and corr_ok
    dl = None
    if with_dispatcher:
        # the property's clause about the built-in dispatcher: the real Dispatcher on mixed states
        dl = layers.dispatch_layer(seed, DISPATCH_BUDGET[tier])
        corr_ok = use_simple_layer(v, prop, dl, "dispatch", mon_props or [prop]) and corr_ok
    if with_osm:
        n_o, steps_o = OSM_BUDGET[tier]
        ol = layers.hist_layer(seed, n_o, steps_o, OSM_OPTS)
        extra = extra + [ol]
        corr_ok = use_hist_layer(v, prop, ol, mon_props or [prop]) and corr_ok
    ll = None
    if with_layout:
        # the initial layout: generated input files through the real initialisation
        ll = layers.layout_layer(seed, LAYOUT_BUDGET[tier])
        # (the comparison of the loaded stations with the model of the loaders belongs to C02)
        corr_ok = use_simple_layer(v, prop, ll, "layout", mon_props or [prop], None if prop == "C02" else NO_DIFFS) and corr_ok
    tl = None
    if with_timed:
        # the admission / cancellation path: real request files (sorted and not) through the real readers
        tl = layers.timed_layer(seed, TIMED_BUDGET[tier])
        corr_ok = use_simple_layer(v, prop, tl, "timed", mon_props or [prop], TIMED_REQUEST_DIFFS) and corr_ok
    if (not ps.ok or not corr_ok) and not v.violations:
        # a proof obligation or the correspondence broke: search harder for a failing input
        if tl is not None:
            big_t = layers.timed_layer(seed + 7919, TIMED_BUDGET[tier] * 6)
            use_simple_layer(v, prop, big_t, "timed", mon_props or [prop], TIMED_REQUEST_DIFFS)
        big = layers.hist_layer(seed + 7919, n_hist * 6, steps)
        use_hist_layer(v, prop, big, mon_props or [prop])
        v.notes.append(f"escalated search: {big['records']} further records")
    if not ps.ok:
        v.broken(f"proof obligation for {prop}: {ps.failing_obligation()}", {"theorem_or_build": ps.failing_obligation(), "targets": targets})
    v.coverage = {**fw.proof_coverage(ps), **hist_coverage(layer)}
    if with_osm:
        v.coverage["street_graph_records"] = extra[-1]["records"]
        v.coverage["rule"] = v.coverage.get("rule", "") + (
            "; plus histories on generated street graphs (real OSMRoadNetwork: routes of several links, steps that end inside links, positions snapped to links)")
    if with_contention:
        v.coverage["evaluations"] = v.coverage.get("evaluations", 0) + sum(l["records"] for l in extra)
        v.coverage["contention_records"] = sum(l["records"] for l in extra)
        v.coverage["rule"] = v.coverage.get("rule", "") + (
            "; plus contention histories: (a) one public station with 1-2 plugs of one type and 4-7 vehicles (20% nearly empty) standing at it under a controller that keeps "
            "queues alive, (b) one base with room for everybody served by a one-plug station, 3-6 vehicles standing there, ChargeBase/ReserveBase heavy, a probe in 90% of the steps")
    if ll is not None:
        v.coverage["layouts_loaded"] = ll["cases"]
        v.coverage["layout_rows"] = ll["rows"]
        v.coverage["rule"] = v.coverage.get("rule", "") + (
            "; initial layout: generated stations files (1-5 stations on 1-4 rows each in any order, a plug type listed more than once, counts 0..300 written as "
            "ints or floats, now and then a plug type the catalogue lacks), bases files (with/without station, repeated ids, 0 stalls), vehicles on top of stations and bases, "
            "optional fleets file, loaded by the real initialize(); stations compared with the Lean fold Layout.loadStations, Layout.viol (installed = listed, everything free) "
            "and every state monitor evaluated on the loaded state")
    if tl is not None:
        v.coverage["timed_runs"] = tl["cases"]
        v.coverage["timed_steps"] = tl["steps"]
        v.coverage["rule"] = v.coverage.get("rule", "") + (
            "; admission path: generated request files (a quarter of them not sorted by departure time, invalid rows, departures before the start and on step boundaries) "
            "read by the real UpdateRequestsFromFile (lazy and eager) and CancelRequests with scripted pick-ups; every admitted request followed by the Lean ledger "
            "monitor violResolved (admitted once, cancelled at most once, never both, present until resolved - neither vanishes nor comes back); in 30% of the steps the real "
            "Dispatcher looks at the state the readers produced and its pairs are judged by violPairs (C10: only vehicles of the request's fleets)")
    if dl is not None:
        v.coverage["dispatcher_runs"] = dl["cases"]
        v.coverage["assignment_problems"] = dl["steps"]
        v.coverage["pairs_checked"] = dl["rows"]
        v.coverage["rule"] = v.coverage.get("rule", "") + (
            "; dispatcher clause: the real Dispatcher.generate_instructions on states produced by short adversarial histories (mixed activities, charge levels, "
            "shifts, fleets incl. vehicles in two fleets and requests open to all, already assigned requests), every pair checked by the Lean driver")
    v.assumptions = (assumptions or []) + ["well-formed environment (unique ids, registered mechatronics/plug types)"]
    return v.finish()


REGISTRY: Dict[str, Callable[[str, int], int]] = {}


def register(prop: str):
    def deco(fn):
        REGISTRY[prop] = fn
        return fn
    return deco


@register("C02")
def check_C02(tier: str, seed: int) -> int:
    return control_check("C02", tier, seed, with_contention=True, with_layout=True)


@register("C07")
def check_C07(tier: str, seed: int) -> int:
    return control_check("C07", tier, seed, with_osm=True)


@register("C10")
def check_C10(tier: str, seed: int) -> int:
    return control_check("C10", tier, seed, with_dispatcher=True, with_timed=True, with_layout=True)


@register("C17")
def check_C17(tier: str, seed: int) -> int:
    return control_check("C17", tier, seed, with_dispatcher=True)


def use_simple_layer(v: fw.Verdict, prop: str, layer: Dict[str, Any], layer_name: str, mon_props: List[str],
                     diff_filter: Optional[str] = None) -> bool:
    """function-level layers: findings are {id, kind, text, record}; `diff_filter`: only disagreements
    about these outputs concern this property (the others belong to another property's check)"""
    corr_ok = True
    for f in layer["findings"]:
        if f["kind"] == "diff" and diff_filter and not any(re.search(diff_filter, t) for t in f["text"]):
            continue
        replay = {"layer": layer_name, "record_id": f["id"], "messages": f["text"], "record": f.get("record"),
                  "how_to_replay": f"./check {prop} --replay <this file> (re-runs the recorded case through the current /repo code and the model)"}
        if f["kind"] == "mon":
            for m in f["text"]:
                if any(m.startswith(p + "/") or m.startswith(p + "|") for p in mon_props):
                    v.violation(sig_of(m), m, replay)
        elif f["kind"] == "diff":
            corr_ok = False
            v.broken(f"correspondence ({layer_name} layer) for {prop}: model and implementation disagree", replay)
        else:
            corr_ok = False
            v.broken("Lean driver could not process a record", replay)
    return corr_ok


TRAV_BUDGET = {"quick": 3200, "thorough": 200000}
# histories on a generated street graph (real OSMRoadNetwork): routes of several links, steps that end inside links
OSM_OPTS = {"world": {"osm": True}, "hist": {}}
OSM_BUDGET = {"quick": (48, 25), "thorough": (640, 50)}


@register("C06")
def check_C06(tier: str, seed: int) -> int:
    v = fw.Verdict("C06", tier, seed, "proof")
    ps = fw.ProofStatus("C06", ["Properties.C06"])
    tl = layers.trav_layer(seed, TRAV_BUDGET[tier])
    ok1 = use_simple_layer(v, "C06", tl, "trav", ["C06"])
    n_hist, steps = HIST_BUDGET[tier]
    hl = layers.hist_layer(seed, n_hist, steps)
    ok2 = use_hist_layer(v, "C06", hl, ["C06"])
    n_o, steps_o = OSM_BUDGET[tier]
    ol = layers.hist_layer(seed, n_o, steps_o, OSM_OPTS)
    ok2 = use_hist_layer(v, "C06", ol, ["C06"]) and ok2
    if (not ps.ok or not ok1 or not ok2) and not v.violations:
        big = layers.trav_layer(seed + 7919, TRAV_BUDGET[tier] * 8)
        use_simple_layer(v, "C06", big, "trav", ["C06"])
        v.notes.append(f"escalated search: {big['cases']} further traversals")
    if not ps.ok:
        v.broken(f"proof obligation for C06: {ps.failing_obligation()}", {"theorem_or_build": ps.failing_obligation()})
    cov = {**fw.proof_coverage(ps), **hist_coverage(hl)}
    cov["evaluations"] = tl["cases"] + hl["records"] + ol["records"]
    cov["street_graph_records"] = ol["records"]
    cov["distinct_nontrivial"] = len(tl["shapes"])
    cov["rule"] = ("function-level: generated routes (1-6 links, degenerate/closed/disconnected shapes, 6 speeds, ground-truth speeds differing from the estimate, "
                   "unknown links) × step lengths {1,7,30,60,90,3600} through the real routetraversal.traverse AND through the real vehicle_state_ops.move vs the Lean model, the C06 "
                   "statements evaluated by Lean on the implementation's result; distinct_nontrivial = distinct (route shape, outcome, drove?, left-over?, has degenerate link, dt) tuples; "
                   "plus the history layer twice: whole journeys on the haversine network, and on generated street graphs (real OSMRoadNetwork: routes of several links, steps ending "
                   "inside links, snapped positions) - positions/routes/odometers compared after every phase")
    cov["samples"] = [tl["sample"]] + cov.get("samples", [])
    cov["traversal_cases"] = tl["cases"]
    cov["skipped_near_float_boundary"] = tl["skipped_near_boundary"] + hl["skipped_near_boundary"]
    cov["trusted_base"] = cov["trusted_base"] + ["H3 geometry (point_along_link, great_circle_distance) and ground-truth link speeds are oracles: recorded from the implementation, universally quantified in the theorems"]
    v.coverage = cov
    v.assumptions = ["connected route estimates (router contract, C13)", "positive step length",
                     "strict positional progress for sub-cell advances is NOT claimed (oracle hypothesis on point_along_link; known finding F16)"]
    return v.finish()


COLL_BUDGET = {"quick": 320, "thorough": 20000}


@register("C08")
def check_C08(tier: str, seed: int) -> int:
    v = fw.Verdict("C08", tier, seed, "proof")
    ps = fw.ProofStatus("C08", ["Properties.C08"] + EXTRA_TARGETS["C08"])
    cl = layers.coll_layer(seed, COLL_BUDGET[tier])
    ok1 = use_simple_layer(v, "C08", cl, "coll", ["C08"])
    n_hist, steps = HIST_BUDGET[tier]
    hl = layers.hist_layer(seed, n_hist, steps)
    ok2 = use_hist_layer(v, "C08", hl, ["C08"])
    # the indexes of a freshly loaded state (generated input files through the real initialize())
    ll = layers.layout_layer(seed, LAYOUT_BUDGET[tier])
    use_simple_layer(v, "C08", ll, "layout", ["C08"], diff_filter=NO_DIFFS)
    if (not ps.ok or not ok1 or not ok2) and not v.violations:
        big = layers.coll_layer(seed + 7919, COLL_BUDGET[tier] * 8)
        use_simple_layer(v, "C08", big, "coll", ["C08"])
        v.notes.append(f"escalated search: {big['ops']} further operations")
    if not ps.ok:
        v.broken(f"proof obligation for C08: {ps.failing_obligation()}", {"theorem_or_build": ps.failing_obligation()})
    cov = {**fw.proof_coverage(ps), **hist_coverage(hl)}
    cov["evaluations"] = cl["ops"] + hl["records"]
    cov["distinct_nontrivial"] = len(cl["shapes"])
    cov["rule"] = ("function-level: random add / modify / remove sequences (5-40 ops, re-adds of existing ids, moves inside a search cell, across search cells and back, "
                   "missing ids, forbidden station/base moves) on vehicles, requests, stations and bases of a real SimulationState through simulation_state_ops, search resolution in {7,9,12}; "
                   "all eight maps compared with the Lean Coll model after every operation and checked by the Lean predicate Index.ok; after every operation the read side is "
                   "exercised too: SimulationState.at_geoid at every palette cell, H3Ops.get_entities_at_cell at every palette search cell and a neighbour, and two ring searches "
                   "(H3Ops.nearest_entity with random origin, accepted set {one entity, all, random subset} and ring budget 0-3), compared with Hive.Lookup on the model state and judged by "
                   "Lookup.viol (found at exactly its cell / its enclosing search cell / within the rings); distinct_nontrivial = distinct "
                   "(entity kind, operation, outcome) triples and ring-search shapes; plus the history layer (indexes compared and checked after every phase)")
    cov["samples"] = [cl["sample"]] + cov.get("samples", [])
    cov["operation_sequences"] = cl["cases"]
    cov["operations"] = cl["ops"]
    cov["lookups"] = cl["lookups"]
    v.coverage = cov
    v.assumptions = ["h3_to_parent is an arbitrary function in the theorems; the recorded parent table is used in the runs",
                     "request arrivals during a run use fresh ids (re-adds are covered by the function-level theorem Hive.C08.ops)",
                     "h3.k_ring is not modelled: the ring search theorems hold for any rings, the runs use the rings the library produced"]
    return v.finish()


STACK_BUDGET = {"quick": 48, "thorough": 1000}


C09_STATE_MONITORS = ["C02", "C07", "C08", "C17"]


@register("C09")
def check_C09(tier: str, seed: int) -> int:
    v = fw.Verdict("C09", tier, seed, "proof")
    ps = fw.ProofStatus("C09", ["Properties.C09"])
    n_hist, steps = HIST_BUDGET[tier]
    hl = layers.hist_layer(seed, n_hist, steps)
    ok1 = use_hist_layer(v, "C09", hl, ["C09"], after_apply=C09_STATE_MONITORS)
    sl = layers.stack_layer(seed, STACK_BUDGET[tier])
    ok2 = use_simple_layer(v, "C09", sl, "stack", ["C09"])
    n_b, steps_b = BASE_BUDGET[tier]
    bl = layers.hist_layer(seed, n_b, steps_b, BASE_OPTS)      # probes under plug contention behind a base
    ok2 = use_hist_layer(v, "C09", bl, ["C09"], after_apply=C09_STATE_MONITORS) and ok2
    if (not ps.ok or not ok1 or not ok2) and not v.violations:
        big = layers.hist_layer(seed + 7919, n_hist * 6, steps)
        use_hist_layer(v, "C09", big, ["C09"], after_apply=C09_STATE_MONITORS)
        v.notes.append(f"escalated search: {big['records']} further records")
    if not ps.ok:
        v.broken(f"proof obligation for C09: {ps.failing_obligation()}", {"theorem_or_build": ps.failing_obligation()})
    cov = {**fw.proof_coverage(ps), **hist_coverage(hl)}
    probes = sorted({tuple(t) for t in hl["triples"] + bl["triples"] if t[1].startswith("probe:")})
    cov["evaluations"] = hl["records"] + sl["steps"] + bl["records"]
    cov["distinct_nontrivial"] = len(probes) + len(sl["shapes"])
    cov["rule"] = ("(a) probes: one random instruction (any kind, any target incl. missing/remote/wrong fleet/no capacity/malformed link) applied ALONE through the real "
                   "apply_instructions to states reached in adversarial histories; Lean checks on the implementation's result that either the whole canonical state "
                   "(entities, counters, request records, indexes, applied_instructions) is unchanged or the vehicle is in the instructed activity and the instruction is recorded; "
                   "(b) every multi-instruction phase compared with the model on the whole state; (c) whole steps through the real StepSimulation.update with 1-3 scripted generators "
                   "plus the vehicles' own drivers: the list handed to apply_instructions vs the Lean model finalInstructions. distinct_nontrivial = distinct "
                   "(previous activity, probed instruction kind, resulting activity) triples + distinct (generators, drivers present, max instructions per vehicle) shapes")
    cov["samples"] = ([sl["sample"]] if sl.get("sample") else []) + cov.get("samples", [])
    cov["probe_triples"] = ["→".join(t) for t in probes][:300]
    cov["stack_steps"] = sl["steps"]
    v.coverage = cov
    v.assumptions = ["reports filed by a transition that is later rejected are not rolled back by the implementation's reporter (only the simulation state is compared)"]
    return v.finish()


@register("C03")
def check_C03(tier: str, seed: int) -> int:
    return control_check("C03", tier, seed, with_timed=True, with_osm=True, assumptions=[
        "request ids are unique in the input and never reused",
        "the whole-stream conservation law is enforced by the Lean ledger automaton (Hive.Ledger) on implementation traces; the Lean theorems are the run-level ledger theorems over state + event log (run_resolved_once, run_none_vanishes, run_dropoff_by_picker, ...), the state-level lemmas of Properties/C03.lean and, for whole instruction phases, no_divert_phase / divert_monitor_silent (Properties/C03Divert.lean)"])


QUEUE_OPTS = {"world": {"queue_scenario": True, "n_veh": [4, 7]}, "hist": {"p_instr": 0.35, "p_req": 0.0, "p_probe": 0.0}}
QUEUE_BUDGET = {"quick": (192, 50), "thorough": (5000, 60)}
BASE_OPTS = {"world": {"base_scenario": True, "n_veh": [3, 6]}, "hist": {"p_instr": 0.4, "p_req": 0.0, "p_probe": 0.9}}
BASE_BUDGET = {"quick": (96, 30), "thorough": (2000, 50)}


QUEUERUN_BUDGET = {"quick": 320, "thorough": 4800}


@register("C18")
def check_C18(tier: str, seed: int) -> int:
    v = fw.Verdict("C18", tier, seed, "proof")
    ps = fw.ProofStatus("C18", ["Properties.C18", "Properties.C18Order"])
    n_q, steps_q = QUEUE_BUDGET[tier]
    ql = layers.hist_layer(seed, n_q, steps_q, QUEUE_OPTS)
    ok1 = use_hist_layer(v, "C18", ql, ["C18"])
    n_hist, steps = HIST_BUDGET[tier]
    hl = layers.hist_layer(seed, n_hist, steps)
    ok2 = use_hist_layer(v, "C18", hl, ["C18"])
    qr = layers.queuerun_layer(seed, QUEUERUN_BUDGET[tier])
    use_simple_layer(v, "C18", qr, "queuerun", ["C18"])
    if (not ps.ok or not ok1 or not ok2) and not v.violations:
        big = layers.hist_layer(seed + 7919, n_q * 8, steps_q, QUEUE_OPTS)
        use_hist_layer(v, "C18", big, ["C18"])
        v.notes.append(f"escalated search: {big['records']} further records")
    if not ps.ok:
        v.broken(f"proof obligation for C18: {ps.failing_obligation()}", {"theorem_or_build": ps.failing_obligation()})
    cov = {**fw.proof_coverage(ps), **hist_coverage(ql)}
    qtr = [t for t in ql["triples"] if "chargeQueueing" in t[0] or "chargeQueueing" in t[2]]
    cov["evaluations"] = ql["records"] + hl["records"] + qr["steps"]
    cov["whole_steps_builtin_generators"] = qr["steps"]
    cov["whole_steps_with_a_queue"] = qr["rows"]
    cov["distinct_nontrivial"] = len(qtr)
    cov["rule"] = ("queue histories: one public station with a single plug type (1-2 plugs), 4-7 vehicles standing at it, a controller producing arrivals (direct and through "
                   "DispatchStation, which queues at a full station), departures, abandonments and excursions; every update phase through the real perform_vehicle_state_updates, compared "
                   "with the model on the whole state and checked by the Lean FIFO monitor on the implementation's own pre/post states (a vehicle that started charging while an "
                   "earlier queuer for the same plug is left waiting); distinct_nontrivial = distinct transitions into/out of ChargeQueueing; plus the general history layer; plus whole steps of queue worlds under the BUILT-IN "
                   "generators (Dispatcher + ChargingFleetManager through the real StepSimulation.update), judged between consecutive states: a vehicle that left a queue to charge "
                   "must not leave an earlier queuer behind")
    v.coverage = cov
    v.assumptions = ["fifo_enabled: counters match the vehicles (C02), the earlier vehicle stands at the station with access and a usable plug type (C07, C10, ChargeQueueing.enter); "
                     "environment without geofence refusals whose physics predicates read mechatronics / energy / plug energy type only (EnvCongr, proved for the driver's environment)"]
    return v.finish()


EVENTS_BUDGET = {"quick": 48, "thorough": 1200}
MECH_BUDGET = {"quick": 1600, "thorough": 100000}


def energy_check(prop: str, tier: str, seed: int, text_rule: str, assumptions: List[str]) -> int:
    v = fw.Verdict(prop, tier, seed, "proof")
    ps = fw.ProofStatus(prop, [f"Properties.{prop}"] + EXTRA_TARGETS.get(prop, []))
    ml = layers.mech_layer(seed, MECH_BUDGET[tier])
    ok1 = use_simple_layer(v, prop, ml, "mech", [prop])
    n_hist, steps = HIST_BUDGET[tier]
    hl = layers.hist_layer(seed, n_hist, steps)
    ok2 = use_hist_layer(v, prop, hl, [prop])
    if (not ps.ok or not ok1 or not ok2) and not v.violations:
        big = layers.mech_layer(seed + 7919, MECH_BUDGET[tier] * 6)
        use_simple_layer(v, prop, big, "mech", [prop])
        big2 = layers.hist_layer(seed + 7919, n_hist * 4, steps)
        use_hist_layer(v, prop, big2, [prop])
        v.notes.append(f"escalated search: {big['cases']} further function cases, {big2['records']} further records")
    el = None
    if prop == "C05":
        # what the stations REPORT as dispensed: the written event log of whole runs, parsed back (the
        # station load of a step is the sum of that step's charge events there; charge events add up to
        # what the vehicles gained)
        el = layers.events_layer(seed, EVENTS_BUDGET[tier])
        use_simple_layer(v, prop, el, "events", ["C19/station-load", "C19/energy-gained"])
        # the initial layout: every plug type loaded from the stations file has a meter of its energy type
        ll = layers.layout_layer(seed, LAYOUT_BUDGET[tier])
        use_simple_layer(v, prop, ll, "layout", ["C05"], NO_DIFFS)
    if not ps.ok:
        v.broken(f"proof obligation for {prop}: {ps.failing_obligation()}", {"theorem_or_build": ps.failing_obligation()})
    cov = {**fw.proof_coverage(ps), **hist_coverage(hl)}
    cov["evaluations"] = ml["cases"] + hl["records"]
    cov["distinct_nontrivial"] = len(ml["shapes"])
    cov["rule"] = text_rule
    if el is not None:
        cov["whole_runs"] = el["cases"]
        cov["rule"] += ("; plus whole runs of the packaged scenarios through the real file-writing handlers: the parsed-back log must show, per station and step, a station load equal "
                        "to the sum of that step's charge events there, and per vehicle charge events adding up to the energy gained (Hive.EventLedger.violEvents)")
    cov["samples"] = [ml["sample"]] + cov.get("samples", [])
    cov["function_cases"] = ml["cases"]
    cov["trusted_base"] = cov["trusted_base"] + ["numpy.interp is modelled (clamped piecewise-linear) and compared through the real TabularPowertrain / TabularPowercurve on generated tables"]
    v.coverage = cov
    v.assumptions = assumptions
    return v.finish()


@register("C04")
def check_C04(tier: str, seed: int) -> int:
    return energy_check(
        "C04", tier, seed,
        "function-level: generated BEV and ICE definitions (2-7 row consumption tables in mph/kmph and miles/km, 2-6 row charge curves with integration step in {1,7,30,60,300} s, "
        "capacities, idle rates, taper cut-offs) × levels (0, full, near-empty, near-full, random) × {consume_energy over 0-4 links, idle, add_energy} × durations {1,7,30,60,90,3600} × "
        "charger rates below/above the taper cut-off and plugs of the wrong energy type, through the real BEV/ICE methods vs the Lean model; bounds, ledger, strict expenditure, "
        "charge monotonicity and the plug bound evaluated by Lean on the implementation's outputs; distinct_nontrivial = distinct (powertrain, operation, duration/links, "
        "boundary flags, curve step) shapes; plus the history layer with the per-vehicle energy ledger monitor after every phase",
        ["exact rational arithmetic (floating-point rounding is outside the theorems; comparisons use relative tolerance 1e-9)",
         "valid mechatronics definitions (positive tables, capacities, rates) and non-negative charger rates — what the loaders accept",
         "distances of driven links are non-negative (oracle property of the geometry)"])


@register("C05")
def check_C05(tier: str, seed: int) -> int:
    return energy_check(
        "C05", tier, seed,
        "history layer: after every phase Lean checks on the implementation's pre/post states and events that energy gained by vehicles equals energy dispensed by stations per energy type, "
        "vehicle balances changed by fares − charging payments, station balances by the payments received, and every charge event is priced amount × pre-state tariff of that station and plug; "
        "charging sessions at stations and through bases, cut short by instructions or a full battery; function-level mechatronics cases as in C04 (the transferred amount). "
        "distinct_nontrivial = distinct function-level shapes",
        ["exact rational arithmetic; comparisons of sums use tolerance 1e-9·scale",
         "the run-level theorems (per vehicle, per station, per energy type, fleet sums) are about the model; the implementation is tied to them by the per-phase monitor and the comparison of states and events"])


TIMED_BUDGET = {"quick": 480, "thorough": 24000}


@register("C11")
def check_C11(tier: str, seed: int) -> int:
    v = fw.Verdict("C11", tier, seed, "proof")
    ps = fw.ProofStatus("C11", ["Properties.C11"])
    tl = layers.timed_layer(seed, TIMED_BUDGET[tier])
    ok1 = use_simple_layer(v, "C11", tl, "timed", ["C11"])
    if (not ps.ok or not ok1) and not v.violations:
        big = layers.timed_layer(seed + 7919, TIMED_BUDGET[tier] * 6)
        use_simple_layer(v, "C11", big, "timed", ["C11"])
        v.notes.append(f"escalated search: {big['cases']} further runs")
    if not ps.ok:
        v.broken(f"proof obligation for C11: {ps.failing_obligation()}", {"theorem_or_build": ps.failing_obligation()})
    cov = fw.proof_coverage(ps)
    cov["evaluations"] = tl["steps"]
    cov["distinct_nontrivial"] = len(tl["shapes"])
    cov["rule"] = ("function-level: generated request files (0-40 rows; bursts, identical timestamps, gaps, departures on / next to step boundaries, before the start and after "
                   "the end; unparsable rows; fleet tags with and without a fleets file) and price tables (keys: station ids, the search cell, coarser and finer regions, junk and "
                   "overflowing keys, cells without stations; tables omitting stations; unparsable prices; the built-in default table) written as CSV and read by the real "
                   "ChargingPriceUpdate / UpdateRequestsFromFile / CancelRequests (their own build(), lazy and eager) over 3-24 pre-step phases with scripted pick-ups, start time in "
                   "{0, 3600, 86340, 172793}, step length in {1,7,30,60,90,3600}, timeout in {0,1,dt-1,dt,dt+1,2dt,5dt+1,600}, search resolution in {7,9,11}; admissions, "
                   "cancellations, request sets and all station prices compared with Hive.Timed.run after every step, and the closed-form statements (violRequests, violPrices, "
                   "violClock) evaluated by Lean on the implementation's trace; evaluations = pre-step phases; distinct_nontrivial = distinct (lazy, fleets, #admitted, "
                   "#cancelled, short timeout, rejected rows) and (default table, key column, key kinds, #distinct price states) tuples")
    cov["samples"] = [tl["sample"]]
    cov["runs"] = tl["cases"]
    cov["rows"] = tl["rows"]
    cov["trusted_base"] = cov["trusted_base"] + [
        "what a price key names (station id, or the stations whose cell lies inside the H3 region) is computed by the harness from h3.h3_to_parent of the stations' own cells, "
        "independently of the implementation's search index; it is a parameter (`names`) of the theorems",
        "CSV parsing (csv.DictReader, SimTime.build, Request.from_row) is exercised by the correspondence runs, not modelled; a row is modelled by the Request it parses to"]
    v.coverage = cov
    v.assumptions = ["the request file is sorted by departure time and request ids are distinct (the statement's quantifier); unsorted files are covered only by reader_once",
                     "the rest of a step only removes request ids (Hive.C03.requests_change_only_by) and advances the clock by dt (Rest)",
                     "when two different keys of one update window name the same station and plug type, the greatest key prevails (the statement does not say which); "
                     "the closed-form price monitor skips such windows, the model/implementation comparison does not",
                     "malformed timestamps (SimTime.build fails) stop the run by design and are not generated"]
    return v.finish()


SHIFT_BUDGET = {"quick": 320, "thorough": 16000}


@register("C20")
def check_C20(tier: str, seed: int) -> int:
    v = fw.Verdict("C20", tier, seed, "proof")
    ps = fw.ProofStatus("C20", ["Properties.C20"])
    sl = layers.shift_layer(seed, SHIFT_BUDGET[tier])
    ok1 = use_simple_layer(v, "C20", sl, "shift", ["C20"])
    # the dispatcher clause on mixed states: parked / charging vehicles with drivers off shift under configurations
    # whose valid dispatch states include them (only the C20 pair monitor of that layer counts here)
    dl20 = layers.dispatch_layer(seed, DISPATCH_BUDGET[tier])
    use_simple_layer(v, "C20", dl20, "dispatch", ["C20"], diff_filter=NO_DIFFS)
    if (not ps.ok or not ok1) and not v.violations:
        big = layers.shift_layer(seed + 7919, SHIFT_BUDGET[tier] * 6)
        use_simple_layer(v, "C20", big, "shift", ["C20"])
        v.notes.append(f"escalated search: {big['cases']} further runs")
    if not ps.ok:
        v.broken(f"proof obligation for C20: {ps.failing_obligation()}", {"theorem_or_build": ps.failing_obligation()})
    cov = fw.proof_coverage(ps)
    cov["dispatcher_runs"] = dl20["cases"]
    cov["dispatcher_pairs_checked"] = dl20["rows"]
    cov["evaluations"] = sl["steps"]
    cov["distinct_nontrivial"] = len(sl["shapes"])
    cov["rule"] = ("function-level: shift tables (1-4 schedules: ordinary, wrapping past midnight, empty start=end, 00:00:00/23:59:59 ends, ends placed exactly on / one second "
                   "around step starts, a later row overriding an earlier one, drivers naming a missing schedule) parsed by the real time_range_schedules_from_string; 2-7 vehicles, "
                   "80% human-driven with random initial availability; 10-80 driver phases through the real perform_driver_state_updates with start time up to day 5 and step "
                   "length in {1,7,60,300,900,3600,7200,43200,86399,86400,86460} (runs longer than a day); availability and shift events compared with Hive.Shift.driverUpdates "
                   "after every step; the closed-form statement (violShift) evaluated by Lean on the implementation's trace; in 35% of the steps fresh requests are offered to the "
                   "real built-in Dispatcher and every assignment is checked against the driver's availability; evaluations = driver phases; distinct_nontrivial = distinct "
                   "(shift kinds, dt>=day, dt<60, #flips, dispatcher used) tuples")
    cov["samples"] = [sl["sample"]]
    cov["runs"] = sl["cases"]
    cov["dispatcher_assignments_checked"] = sl["rows"]
    v.coverage = cov
    v.assumptions = ["a driver whose schedule id is not in the table keeps its availability (the statement speaks of drivers with a shift)",
                     "the third clause (dispatcher) is a monitor on the real Dispatcher's output here; its theorem is Hive.C12.dispatch_available",
                     "times of day have second resolution (HH:MM:SS, integer clock)"]
    return v.finish()


COSIM_BUDGET = {"quick": 64, "thorough": 1600}


@register("C15")
def check_C15(tier: str, seed: int) -> int:
    v = fw.Verdict("C15", tier, seed, "proof")
    ps = fw.ProofStatus("C15", ["Properties.C15"])
    cl = layers.cosim_layer(seed, COSIM_BUDGET[tier])
    ok1 = use_simple_layer(v, "C15", cl, "cosim", ["C15"])
    if (not ps.ok or not ok1) and not v.violations:
        big = layers.cosim_layer(seed + 7919, COSIM_BUDGET[tier] * 4)
        use_simple_layer(v, "C15", big, "cosim", ["C15"])
        v.notes.append(f"escalated search: {big['cases']} further scenarios")
    if not ps.ok:
        v.broken(f"proof obligation for C15: {ps.failing_obligation()}", {"theorem_or_build": ps.failing_obligation()})
    cov = fw.proof_coverage(ps)
    cov["evaluations"] = cl["steps"]
    cov["distinct_nontrivial"] = len(cl["shapes"])
    cov["rule"] = ("whole runs of the packaged denver_downtown scenarios (plain, fleets, constrained charging; default Dispatcher + ChargingFleetManager + drivers; haversine network), "
                   "start time in {0h,6h,8h,8h+17s,17h,23h}, step length in {30,60,120,300}, 20-160 steps, end time a multiple of dt away or 1 / dt/2 / dt-1 seconds short of it, "
                   "lazy and eager file reading, timeout in {600,120,dt}: each scenario is loaded afresh four times and advanced by 2-4 successive hive_cosim.crank calls over a "
                   "random split (zero-length calls included; in 60% of the scenarios a generator is taken out of the payload and put back unchanged between the calls - the "
                   "co-simulation round trip through runner_payload_ops), by one crank call, by LocalSimulationRunner.run and by repeated LocalSimulationRunner.step until it refuses; final "
                   "states (entities and all eight indexes) and the complete event streams must be equal (random uuid4 instance/session ids renamed by first appearance); the clock "
                   "after every call, the number of steps before refusal and the runner's final time are checked by Lean against Hive.Cycle.runnerSteps / crank_clock; "
                   "evaluations = simulation steps executed; distinct_nontrivial = distinct (scenario, lazy, dt, divisible interval, #calls, has zero-length call) tuples")
    cov["samples"] = [cl["sample"]]
    cov["scenarios"] = cl["cases"]
    cov["events_compared"] = cl["rows"]
    cov["trusted_base"] = cov["trusted_base"] + [
        "the step function itself is a parameter here: the theorems hold for every instruction generator state machine; that the real apply_update keeps no state outside the payload "
        "is what the split runs decide",
        "the packaged OSM road network cannot be loaded by the installed networkx (KeyError 'edges', also the cause of the 8 baseline test failures); scenarios run on the haversine network"]
    v.coverage = cov
    v.assumptions = ["positive step length (range() raises on 0 in the implementation)",
                     "'covers exactly the interval' is read as: the steps taken are exactly those that begin before the end time (for an interval that is not a multiple of dt "
                     "the last step ends after the end time; run and repeated step agree on this)",
                     "uuid4 instance ids and session ids are compared up to renaming"]
    return v.finish()



@register("C12")
def check_C12(tier: str, seed: int) -> int:
    v = fw.Verdict("C12", tier, seed, "translation_validation")
    ps = fw.ProofStatus("C12", ["Properties.C12"])
    dl = layers.dispatch_layer(seed, DISPATCH_BUDGET[tier])
    ok1 = use_simple_layer(v, "C12", dl, "dispatch", ["C12"])
    # eligibility as the whole step wires it: the dispatcher inside one real StepSimulation.update must see the
    # driver states of this very step (shift layer), and the memberships it filters by must be the ones the
    # input files give (layout layer)
    sl = layers.shift_layer(seed, SHIFT_BUDGET[tier])
    use_simple_layer(v, "C12", sl, "shift", ["C20/dispatch-off-shift"], diff_filter=NO_DIFFS)
    ll = layers.layout_layer(seed, LAYOUT_BUDGET[tier])
    use_simple_layer(v, "C12", ll, "layout", ["C12"], diff_filter=NO_DIFFS)
    if (not ps.ok or not ok1) and not v.violations:
        big = layers.dispatch_layer(seed + 7919, DISPATCH_BUDGET[tier] * 6)
        use_simple_layer(v, "C12", big, "dispatch", ["C12"])
        v.notes.append(f"escalated search: {big['cases']} further dispatcher runs")
    if not ps.ok:
        v.broken(f"proof obligation for C12: {ps.failing_obligation()}", {"theorem_or_build": ps.failing_obligation()})
    cov = fw.proof_coverage(ps)
    cov["evaluations"] = dl["steps"]
    cov["distinct_nontrivial"] = len(dl["shapes"])
    cov["rule"] = ("function-level: worlds of 1-9 vehicles (BEV and ICE, autonomous and human drivers on and off shift, 0-2 fleets per vehicle) taken through 0-6 steps of an "
                   "adversarial history (so that activities, positions, charge levels and assigned requests are mixed) plus 0-8 fresh requests; dispatcher configuration varied "
                   "(valid_dispatch_states in 5 sets, matching range in {20,60,150,250} km, base range in {30,100,300} km); the real Dispatcher.generate_instructions runs with "
                   "assignment_ops.find_assignment observed; for every assignment problem Lean compares the assignees/targets with the model filters (eligible, waiting, entities "
                   "paired for an earlier fleet excluded, fleets in sorted order) and accepts the solution only if checkFleet passes with the dual potentials computed by the "
                   "harness's own Hungarian method; evaluations = assignment problems; distinct_nontrivial = distinct (#vehicles, #requests (capped at 4), orientation, fleet "
                   "problem?, #valid states) tuples")
    cov["samples"] = [dl["sample"]]
    cov["dispatcher_runs"] = dl["cases"]
    cov["pairs_certified"] = dl["rows"]
    cov["programs"] = dl["steps"]
    cov["disagreements_checked"] = dl["n_findings"]
    cov["explanation"] = ("programs = assignment problems whose solution (scipy linear_sum_assignment) was put through Hive.Dispatch.checkFleet; disagreements_checked = "
                          "runs in which the checker, a pair monitor or the filter comparison did not accept the implementation's answer (each becomes a violation, a known "
                          "finding or a broken correspondence)")
    cov["trusted_base"] = cov["trusted_base"] + [
        "scipy.optimize.linear_sum_assignment is NOT modelled and NOT trusted: each of its answers is accepted only with a dual certificate checked by the Lean function "
        "Hive.Dispatch.checkFleet, whose soundness is the theorem Hive.C12.checkFleet_sound; the potentials come from an untrusted Hungarian implementation in the harness",
        "h3.h3_distance (the grid distance) and mechatronics.range_remaining_km are oracles: recorded from the libraries, universally quantified in the theorems"]
    v.coverage = cov
    v.assumptions = ["the theorem is about accepted answers (translation validation): that every answer of the implementation is accepted is observed on the runs of this check, "
                     "not proved for all states",
                     "a vehicle without any membership is offered to every fleet (implementation behaviour relied upon by tests/test_local_simulation_runner.py; the resulting "
                     "pairings with fleet requests are known finding F6 under C10)"]
    return v.finish()


ROUTER_BUDGET = {"quick": 320, "thorough": 16000}

_ROUTER_RULE = ("function-level: generated strongly connected street graphs (3-12 junctions, a directed ring plus reverse sides and random chords, no parallel links; speeds from one "
                "value to {5,10,30,60,130} km/h; lengths 1-1.7 x the straight-line distance, or arbitrary in 30% of the graphs; three spatial scales) built into the real "
                "OSMRoadNetwork; 6-14 position pairs per graph: random link interiors, the same link with the destination ahead / behind / on the same cell, opposite directions of "
                "one street, adjacent links, link ends, and positions snapped from random nearby cells by position_from_geoid; networkx.astar_path observed; Lean rebuilds each "
                "route from the observed junction path with the model of route_from_nx_path + resolve_route_src_dst_positions and compares it, evaluates validRoute on the "
                "implementation's route, and accepts the junction path only if certPath passes with the potentials of the harness's exact Dijkstra; plus 8 snapping probes and 4 "
                "straight-line-network queries per graph; evaluations = queries and probes; distinct_nontrivial = distinct (query kind, path length, route length, mixed speeds) tuples")


def router_check(prop: str, tier: str, seed: int, assumptions: List[str]) -> int:
    v = fw.Verdict(prop, tier, seed, "translation_validation" if prop == "C14" else "proof")
    ps = fw.ProofStatus(prop, [f"Properties.{prop}"])
    rl = layers.router_layer(seed, ROUTER_BUDGET[tier])
    ok1 = use_simple_layer(v, prop, rl, "router", [prop])
    if (not ps.ok or not ok1) and not v.violations:
        big = layers.router_layer(seed + 7919, ROUTER_BUDGET[tier] * 6)
        use_simple_layer(v, prop, big, "router", [prop])
        v.notes.append(f"escalated search: {big['cases']} further graphs")
    if not ps.ok:
        v.broken(f"proof obligation for {prop}: {ps.failing_obligation()}", {"theorem_or_build": ps.failing_obligation()})
    cov = fw.proof_coverage(ps)
    cov["evaluations"] = rl["steps"]
    cov["distinct_nontrivial"] = len(rl["shapes"])
    cov["rule"] = _ROUTER_RULE
    cov["samples"] = [rl["sample"]]
    cov["graphs"] = rl["cases"]
    cov["links"] = rl["rows"]
    if prop == "C14":
        # translation validation: every answer of the real router is a "program" put through the verified checker
        cov["programs"] = rl["steps"]
        cov["disagreements_checked"] = rl["n_findings"]
        cov["explanation"] = ("programs = route queries whose junction path (networkx.astar_path with the repository's heuristic) was put through Hive.Router.certPath; "
                              "disagreements_checked = answers the checker or the comparison did not accept (each becomes a violation or a broken correspondence)")
    cov["trusted_base"] = cov["trusted_base"] + [
        "networkx.astar_path is NOT modelled and NOT trusted: its answer is a parameter of the route model and is accepted as fastest only with node potentials checked by the "
        "Lean function Hive.Router.certPath (soundness: Hive.C14.cert_fastest); the potentials come from an untrusted exact Dijkstra in the harness",
        "h3.h3_line (the cells of a link) and the KD-tree nearest-link lookup are geometry oracles; snapping is checked against h3_line by the harness",
        "the shipped Denver graph cannot be loaded by the installed networkx (KeyError 'edges'); generated graphs only"]
    v.coverage = cov
    v.assumptions = assumptions
    return v.finish()


@register("C13")
def check_C13(tier: str, seed: int) -> int:
    return router_check("C13", tier, seed, [
        "street networks: the theorem osm_route assumes the graph search returns a junction walk from the end of the origin link to the start of the destination link "
        "(checked on every run: the model route built from the observed path must equal the implementation's route, and validRoute must hold of it)",
        "the link table agrees with the junction cells (Consistent), as OSMRoadNetworkLinkHelper builds it",
        "node ids are non-negative integers (a negative id breaks the 'u-v' link id format; not generated)"])


@register("C14")
def check_C14(tier: str, seed: int) -> int:
    return router_check("C14", tier, seed, [
        "translation validation: cert_fastest is about accepted paths; that every path of the implementation is accepted is observed on the runs of this check",
        "slack = 1e-9 x (fastest time + 1 s) absorbs the rounding of float sums inside networkx",
        "no parallel links between one ordered junction pair (the link table keeps one link per pair)"])




@register("C19")
def check_C19(tier: str, seed: int) -> int:
    v = fw.Verdict("C19", tier, seed, "proof")
    ps = fw.ProofStatus("C19", ["Properties.C19"])
    el = layers.events_layer(seed, EVENTS_BUDGET[tier])
    ok1 = use_simple_layer(v, "C19", el, "events", ["C19"])
    n_hist, steps = HIST_BUDGET[tier]
    hl = layers.hist_layer(seed, n_hist, steps)
    ok2 = use_hist_layer(v, "C19", hl, ["C19"])
    if (not ps.ok or not ok1 or not ok2) and not v.violations:
        big = layers.events_layer(seed + 7919, EVENTS_BUDGET[tier] * 4)
        use_simple_layer(v, "C19", big, "events", ["C19"])
        v.notes.append(f"escalated search: {big['cases']} further runs")
    if not ps.ok:
        v.broken(f"proof obligation for C19: {ps.failing_obligation()}", {"theorem_or_build": ps.failing_obligation()})
    cov = {**fw.proof_coverage(ps), **hist_coverage(hl)}
    cov["evaluations"] = el["rows"] + hl["records"]
    cov["distinct_nontrivial"] = len(el["shapes"])
    cov["rule"] = ("whole runs: packaged denver_downtown scenarios (plain, fleets, constrained charging; default Dispatcher + ChargingFleetManager + drivers; haversine network), "
                   "30-200 steps of 30/60/120/300 s from 5 start times, timeout in {600,300,2dt}, lazy and eager reading, with the real EventfulHandler and StatsHandler writing "
                   "event.log and summary stats into a scratch directory; the log is parsed back line by line (an unparsable record is a violation) and the Lean function "
                   "Hive.EventLedger.violEvents audits it against the final SimulationState and the summary: per vehicle sum of move km = odometer advance and sum of charge "
                   "energy = energy gained; per station and step the load record = that step's charge events; add / cancel counts = summary; every request added once and "
                   "accounted for by exactly one of cancel / pickup / still waiting; drop-offs match pickups minus passengers on board; pickup waiting time in [0, timeout + dt]; "
                   "evaluations = log records audited + history records; plus the history layer (the model files events next to state changes; event lists compared with the "
                   "implementation's after every phase of adversarial histories); distinct_nontrivial = distinct (scenario, dt, event kinds present, #pickups, #cancels, charging?) tuples")
    cov["samples"] = [el["sample"]] + cov.get("samples", [])
    cov["runs"] = el["cases"]
    cov["log_records"] = el["rows"]
    v.coverage = cov
    v.assumptions = ["the run-level sums are proved per operation (move/charge/pickup/dropoff_reports) and composed arithmetically (ledger_compose); the lift through the phase "
                     "folds to one run theorem over state+log is not formalised - whole runs are audited instead",
                     "event energies and distances are floats: sums compared with relative tolerance 1e-9",
                     "stations with plugs of two energy types get one load figure that adds kWh and gallons (implementation behaviour; the packaged scenarios have none)"]
    return v.finish()


HASHSEED_BUDGET = {"quick": 32, "thorough": 640}


@register("C01")
def check_C01(tier: str, seed: int) -> int:
    v = fw.Verdict("C01", tier, seed, "proof")
    # the regenerated half of the tie: the iteration-site table is rewritten from /repo's source, and the
    # theorems of Properties/C01Sites are re-checked against it
    from . import sites as _sites
    site_counts = _sites.regenerate(fw.LEAN_DIR)
    ps = fw.ProofStatus("C01", ["Properties.C01", "Properties.C01Sites", "Properties.C01Prims", "Properties.C01Walk", "Properties.C01Cycle", "Properties.C01Dispatch"])
    if tier == "thorough" and ps.build_ok:
        # the shared leanchecker pass leaves the regenerated table to this check
        rs = fw.leanchecker_mods(["Hive.Gen.Sites", "Properties.C01Sites"])
        if not rs["ok"]:
            ps.problems.append("leanchecker rejects the regenerated site table or its theorems: " + rs["log"][-300:])
    hl = layers.hashseed_layer(seed, HASHSEED_BUDGET[tier])
    ok1 = use_simple_layer(v, "C01", hl, "hashseed", ["C01"])
    if (not ps.ok or not ok1) and not v.violations:
        big = layers.hashseed_layer(seed + 7919, HASHSEED_BUDGET[tier] * 3)
        use_simple_layer(v, "C01", big, "hashseed", ["C01"])
        v.notes.append(f"escalated search: {big['cases']} further cases")
    if not ps.ok:
        v.broken(f"proof obligation for C01: {ps.failing_obligation()}", {"theorem_or_build": ps.failing_obligation(),
                 "iteration_sites_not_covered": _sites.uncovered(fw.LEAN_DIR),
                 "how_to_replay": "./check C01 --tier quick  (regenerates lean/Hive/Gen/Sites.lean from /repo and rebuilds Properties.C01Sites)"})
    cov = fw.proof_coverage(ps)
    cov["iteration_sites"] = site_counts
    cov["evaluations"] = hl["steps"]
    cov["distinct_nontrivial"] = len(hl["shapes"])
    cov["rule"] = ("each case is executed three times in separate interpreters with PYTHONHASHSEED = 0, 1 and a random value: (a) whole runs of the packaged denver_downtown "
                   "scenarios (plain, fleets with vehicles in two fleets, constrained charging), 40-200 steps, lazy and eager, through hive_cosim.crank one step at a time; (b) 10 "
                   "generated worlds per case (two fleets, vehicles in zero/one/two fleets, 2-4 stations with 1-3 plug types of 1-2 plugs incl. co-located stations and tied "
                   "rankings, human and autonomous drivers, BEV and ICE, requests of equal value) through 3-8 calls of the real StepSimulation.update with Dispatcher + "
                   "ChargingFleetManager under three charging-range thresholds and both station search types; after every step the canonical entity state (all maps and sets "
                   "sorted, uuid4 instance ids dropped, all eight indexes) and the canonical multiset of that step's reports (membership print order sorted, session ids dropped) "
                   "are digested and compared across the three interpreters, and the summary statistics at the end of (a); evaluations = steps executed over all interpreters; "
                   "distinct_nontrivial = distinct (kind, scenario, dt, lazy) tuples")
    cov["samples"] = [hl["sample"]]
    cov["cases"] = hl["cases"]
    cov["interpreter_runs"] = hl["rows"]
    cov["trusted_base"] = cov["trusted_base"] + [
        "the canonicaliser harness/seedrun.py:canon decides what 'the same' means: it sorts maps/sets, drops uuid4 tags and sorts membership lists - exactly the differences C01 allows",
        "CPython's PYTHONHASHSEED covers str/bytes hashing; three values per case",
        "harness/sites.py (AST extractor, about 200 lines): which expressions count as hash-ordered containers (view methods, a list of set/Map-typed field names, "
        "set()/frozenset()/k_ring() results, local names bound to them) and how consumers are classified; the reasons given for the reviewed raw sites in Properties/C01Sites.lean are read, not proved"]
    v.coverage = cov
    v.assumptions = ["the theorems cover the model's own sequencing (sorted processing orders, order-free lookups); the setoid congruence of every model function and the "
                     "unmodelled generators/rankings/reporters are decided by the multi-interpreter runs only (PARTIAL proof)",
                     "OSM network scenarios are not run (packaged graph not loadable with the installed networkx)"]
    return v.finish()
