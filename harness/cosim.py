"""Whole-run correspondence for C15: packaged scenarios (denver_downtown variants; haversine
network - the packaged OSM file cannot be read by the installed networkx) are loaded afresh several
times and advanced (a) by successive `hive_cosim.crank` calls over a random split, (b) by one crank
call, (c) by `LocalSimulationRunner.run`, (d) by repeated `LocalSimulationRunner.step` until it
refuses. Final states and the full event streams must be identical; the clock after every call and
the number of steps the runner takes are checked by Lean against `Hive.Cycle` (`crank_clock`,
`runnerSteps`, `runnerStep`)."""
from __future__ import annotations

from . import framework as fw  # noqa: E402

import logging
import random
from typing import Any, Dict, List, Tuple

from pkg_resources import resource_filename

from nrel.hive.app import hive_cosim
from nrel.hive.runner import runner_payload_ops
from nrel.hive.initialization.load import load_config, load_simulation
from nrel.hive.model.sim_time import SimTime
from nrel.hive.runner.local_simulation_runner import LocalSimulationRunner

from .record import Capture

SCENARIOS = ["denver_demo.yaml", "denver_demo_fleets.yaml", "denver_demo_constrained_charging.yaml"]


def _pulse_generator():
    """a generator with state of its own: it counts the steps it has seen and, every third step,
    recalls the idle vehicle whose turn it is; it returns an updated copy of itself every step, so a
    run is reproduced only if every step is given the generator state the previous step returned"""
    from dataclasses import dataclass, replace

    from nrel.hive.dispatcher.instruction.instructions import RepositionInstruction
    from nrel.hive.dispatcher.instruction_generator.instruction_generator import InstructionGenerator

    @dataclass(frozen=True)
    class Pulse(InstructionGenerator):
        seen: int = 0

        def generate_instructions(self, simulation_state, environment):
            nxt = replace(self, seen=self.seen + 1)
            if self.seen % 3 != 2:
                return nxt, ()
            idle = [v for v in simulation_state.get_vehicles() if type(v.vehicle_state).__name__ == "Idle"]
            if not idle:
                return nxt, ()
            v = idle[(self.seen // 3) % len(idle)]
            bases = simulation_state.get_bases()
            if not bases:
                return nxt, ()
            b = bases[(self.seen // 3) % len(bases)]
            return nxt, (RepositionInstruction(v.id, b.position.link_id),)

    return Pulse()


def build(variant: Dict[str, Any]):
    f = resource_filename("nrel.hive.resources.scenarios.denver_downtown", variant["yaml"])
    cfg = load_config(f)
    cfg = cfg._replace(
        global_config=cfg.global_config._replace(
            log_run=False, log_states=False, log_events=False, log_stats=False, log_instructions=False, log_station_capacities=False,
            log_time_step_stats=False, log_fleet_time_step_stats=False, verbose=False, lazy_file_reading=variant["lazy"]),
        network=cfg.network._replace(network_type="euclidean"),
        sim=cfg.sim._replace(start_time=SimTime.build(variant["start"]), end_time=SimTime.build(variant["end"]),
                             timestep_duration_seconds=variant["dt"], request_cancel_time_seconds=variant["timeout"]),
    )
    if variant.get("out"):
        # summary statistics wanted: the StatsHandler needs an output directory
        from pathlib import Path

        cfg = cfg._replace(global_config=cfg.global_config._replace(log_stats=True, output_base_directory=variant["out"]),
                           scenario_output_directory=Path(variant["out"]) / "run")
    if variant.get("pulse"):
        from nrel.hive.dispatcher.instruction_generator.charging_fleet_manager import ChargingFleetManager
        from nrel.hive.dispatcher.instruction_generator.dispatcher import Dispatcher

        rp = load_simulation(cfg, custom_instruction_generators=(Dispatcher(cfg.dispatcher), ChargingFleetManager(cfg.dispatcher), _pulse_generator()))
    else:
        rp = load_simulation(cfg)
    cap = Capture()
    rp.e.reporter.add_handler(cap)
    return rp, cap


def _no_instance(v):
    """vehicle states carry a random uuid4 `instance_id`: not part of the behaviour"""
    from dataclasses import replace

    try:
        return replace(v, vehicle_state=replace(v.vehicle_state, instance_id=None))
    except Exception:
        return v


def fingerprint(sim) -> Dict[str, Any]:
    return {"time": int(sim.sim_time), "vehicles": {k: _no_instance(v) for k, v in sim.vehicles.items()}, "stations": sim.stations, "bases": sim.bases, "requests": sim.requests,
            "v_loc": sim.v_locations, "v_search": sim.v_search, "r_loc": sim.r_locations, "r_search": sim.r_search,
            "s_loc": sim.s_locations, "s_search": sim.s_search, "b_loc": sim.b_locations, "b_search": sim.b_search}


_UUID = __import__("re").compile(r"[0-9a-f]{8}-[0-9a-f]{4}-[0-9a-f]{4}-[0-9a-f]{4}-[0-9a-f]{12}")


def events_of(cap: Capture) -> List[Tuple[str, Any]]:
    """all reports in order; random uuid4 values are renamed by order of first appearance, so that
    which events share a session id is still compared"""
    names: Dict[str, str] = {}

    def canon(v: Any) -> str:
        return _UUID.sub(lambda m: names.setdefault(m.group(0), f"uuid#{len(names)}"), str(v))

    out = []
    for fl in cap.flushes:
        for r in fl:
            out.append((r.report_type.name, tuple(sorted((k, canon(v)) for k, v in r.report.items()))))
    return out


def compare(a_name: str, a, b_name: str, b) -> List[str]:
    msgs = []
    fa, fb = fingerprint(a[0].s), fingerprint(b[0].s)
    for k in fa:
        if fa[k] != fb[k]:
            detail = ""
            if k in ("vehicles", "stations", "requests", "bases"):
                keys = sorted(set(fa[k].keys()) | set(fb[k].keys()))
                bad = [x for x in keys if fa[k].get(x) != fb[k].get(x)]
                detail = f" ({len(bad)} entries differ, first {bad[0]})" if bad else ""
            msgs.append(f"C15/split-differs| final {k} of {a_name} and {b_name} differ{detail}")
    ea, eb = events_of(a[1]), events_of(b[1])
    if ea != eb:
        i = next((i for i, (x, y) in enumerate(zip(ea, eb)) if x != y), min(len(ea), len(eb)))
        xa = ea[i][0] if i < len(ea) else None
        xb = eb[i][0] if i < len(eb) else None
        msgs.append(f"C15/split-differs| event streams of {a_name} ({len(ea)} events) and {b_name} ({len(eb)} events) differ at index {i}: {xa} vs {xb}")
    return msgs


def gen_case(rng: random.Random, k: int) -> Dict[str, Any]:
    """(the loader prints and the runner shows a progress bar: silenced)"""
    import contextlib
    import io
    import os

    os.environ["TQDM_DISABLE"] = "1"
    with contextlib.redirect_stdout(io.StringIO()), contextlib.redirect_stderr(io.StringIO()):
        return _gen_case(rng, k)


def _gen_case(rng: random.Random, k: int) -> Dict[str, Any]:
    dt = rng.choice([30, 60, 60, 120, 300])
    n = rng.randint(20, 160)
    start = rng.choice([0, 6 * 3600, 8 * 3600, 8 * 3600 + 17, 17 * 3600, 23 * 3600])
    rem = rng.choice([0, 0, 1, dt // 2, dt - 1])            # end time not always a multiple of dt away
    end = start + n * dt - rem
    variant = {"yaml": rng.choice(SCENARIOS), "lazy": rng.random() < 0.5, "start": start, "end": end, "dt": dt,
               "timeout": rng.choice([600, 600, 120, dt]), "pulse": rng.random() < 0.5, "reinject": rng.random() < 0.6}
    # split of n into 2-4 calls (zero-length calls allowed)
    cuts = sorted(rng.randint(0, n) for _ in range(rng.randint(1, 3)))
    parts = [b - a for a, b in zip([0] + cuts, cuts + [n])]
    msgs: List[str] = []
    clock: List[List[int]] = []
    raised = None
    try:
        # (a) successive calls
        A = build(variant)
        rp = A[0]
        done = 0
        for p in parts:
            res = hive_cosim.crank(rp, p, flush_events=True)
            rp = res.runner_payload
            done += p
            clock.append([done, int(res.sim_time)])
            if variant["reinject"]:
                # the co-simulation round trip between two calls: take a generator out of the payload
                # and put it back unchanged (which one: the scenario's choice)
                names = list(rp.u.step_update.instruction_generator_order)
                name = names[rng.randrange(len(names))]
                ig = runner_payload_ops.get_instruction_generator(rp, name)
                rp = runner_payload_ops.update_instruction_generator(rp, ig)
        A = (rp, A[1])
        # (b) one call
        B0 = build(variant)
        B = (hive_cosim.crank(B0[0], n).runner_payload, B0[1])
        # (c) the batch runner
        C0 = build(variant)
        C = (LocalSimulationRunner.run(C0[0]), C0[1])
        # (d) single steps until refusal
        D0 = build(variant)
        rp = D0[0]
        n_single = 0
        while True:
            nxt = LocalSimulationRunner.step(rp)
            if nxt is None:
                break
            rp = nxt
            n_single += 1
            if n_single > n + 5:
                break
        D = (rp, D0[1])
        msgs += compare("crank(a);crank(b);…", A, "crank(a+b+…)", B)
        msgs += compare("crank(n)", B, "LocalSimulationRunner.run", C)
        msgs += compare("LocalSimulationRunner.run", C, "repeated LocalSimulationRunner.step", D)
        n_events = len(events_of(B[1]))
        final_time = int(C[0].s.sim_time)
    except Exception as e:
        raised = f"{type(e).__name__}: {e}"[:300]
        n_single, n_events, final_time = -1, 0, -1
    return {"op": "cosim", "id": f"k{k}", "start": start, "stop": end, "dt": dt, "n": n, "clock": clock, "singleSteps": n_single,
            "runnerFinal": final_time, "pyMsgs": msgs, "raised": raised,
            "meta": {**variant, "parts": parts, "events": n_events}}


def worker(args) -> Dict[str, Any]:
    logging.disable(logging.CRITICAL)
    from .lean import run_driver

    seed, count = args
    rng = random.Random(seed)
    recs = [gen_case(rng, seed * 100000 + i) for i in range(count)]
    outs = run_driver(recs)
    findings = []
    shapes = set()
    steps = 0
    events = 0
    for r, o in zip(recs, outs):
        steps += 4 * r["n"]
        events += r["meta"]["events"]
        shapes.add((r["meta"]["yaml"], r["meta"]["lazy"], r["meta"].get("pulse"), r["dt"], (r["stop"] - r["start"]) % r["dt"] == 0, len(r["meta"]["parts"]), 0 in r["meta"]["parts"]))
        rec = {k: v for k, v in r.items()}
        if r["raised"]:
            findings.append({"id": r["id"], "kind": "mon", "record": rec, "text": [f"C15/run-stopped| {r['raised']}"]})
        if r["pyMsgs"]:
            findings.append({"id": r["id"], "kind": "mon", "record": rec, "text": r["pyMsgs"][:8]})
        if "error" in o:
            findings.append({"id": r["id"], "kind": "driver-error", "text": [o["error"][:300]], "record": rec})
        if "error" not in o and o.get("mon"):
            findings.append({"id": r["id"], "kind": "mon", "text": o["mon"][:8], "record": rec})
    s = recs[0]
    return {"n": len(recs), "steps": steps, "rows": events, "findings": fw.pick(findings, 20), "n_findings": len(findings), "shapes": sorted(shapes, key=str),
            "sample": {"meta": s["meta"], "clock": s["clock"], "singleSteps": s["singleSteps"], "runnerFinal": s["runnerFinal"]}}
