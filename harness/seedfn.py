"""Function-level runs for C01, executed in separate interpreters with different PYTHONHASHSEED:

    PYTHONHASHSEED=<k> python -m harness.seedfn <seed> <count>

For each generated world (several fleets, vehicles in two fleets, stations with tied rankings -
same cell, same plug counts -, human and autonomous drivers, requests with equal value) the real
StepSimulation.update (Dispatcher + ChargingFleetManager + driver instructions + stack + apply +
vehicle updates) runs for a few steps; the canonical state after every step and the canonical
multiset of that step's reports are printed as digests. Likewise generated initial layouts through
the real initialisation and generated price tables / request files through the real readers."""
from __future__ import annotations

import json
import logging
import random
import sys

from .seedrun import canon, digest, event_value, state_canon


def main() -> None:
    logging.disable(logging.CRITICAL)
    seed, count = int(sys.argv[1]), int(sys.argv[2])
    from nrel.hive.dispatcher.instruction_generator.charging_fleet_manager import ChargingFleetManager
    from nrel.hive.dispatcher.instruction_generator.dispatcher import Dispatcher
    from nrel.hive.state.simulation_state import simulation_state_ops
    from nrel.hive.state.simulation_state.update.step_simulation import StepSimulation

    from .cosim import _UUID
    from .world import World

    out = []
    rng = random.Random(seed)
    for i in range(count):
        queue = rng.random() < 0.35
        if queue:
            # contention: every vehicle stands at the one station (1-2 plugs of one type) and wants to charge in the
            # same step, so several join the queue with the same enqueue time and plugs free up while they wait
            w = World(random.Random(rng.getrandbits(48)), n_veh=(4, 7), search_res=7, queue_scenario=True, dt_choices=(300, 600))
        else:
            w = World(random.Random(rng.getrandbits(48)), n_veh=(3, 9), n_stn=(2, 4), n_base=(1, 2), search_res=7, with_fleets=True, with_humans=True)
        env = w.env
        # thresholds that make the charging fleet manager act on many vehicles (tied station rankings matter)
        env = env._replace(config=env.config._replace(dispatcher=env.config.dispatcher._replace(
            charging_range_km_threshold=400.0 if queue else rng.choice([20.0, 150.0, 400.0]),
            charging_range_km_soft_threshold=400.0 if queue else rng.choice([50.0, 400.0]),
            charging_search_type=rng.choice(list(type(env.config.dispatcher.charging_search_type))))))
        step_fn = StepSimulation.from_tuple((Dispatcher(env.config.dispatcher), ChargingFleetManager(env.config.dispatcher)))
        sim = w.sim0
        digs = []
        err = None
        for k in range(rng.randint(10, 16) if queue else rng.randint(3, 8)):
            for _ in range(rng.choice([0, 1, 2, 4])):
                sim = simulation_state_ops.add_request_safe(sim, w.new_request(sim)).unwrap()
            env.reporter.reports = []
            try:
                sim, step_fn = step_fn.update(sim, env)
            except Exception as e:
                err = f"{type(e).__name__}: {e}"[:200]
                break
            evs = sorted(json.dumps([r.report_type.name, canon({kk: event_value(kk, vv, _UUID) for kk, vv in r.report.items()})], sort_keys=True, default=str)
                         for r in env.reporter.reports)
            digs.append([digest(state_canon(sim)), digest(evs)])
        out.append({"world": i, "steps": digs, "error": err})
    # initial layouts: generated vehicles / stations / bases / fleets files (human drivers sharing home
    # bases, stations on several rows) loaded by the real initialize(); the loaded state must not
    # depend on the hash seed
    from . import layout

    lrng = random.Random(seed + 17)
    for i in range(max(2, count // 2)):
        rec = layout.gen_case(lrng, i)
        out.append({"world": 1000 + i, "steps": [[digest(json.dumps(rec.get("sim"), sort_keys=True)), digest(str(rec.get("raised")))]], "error": None})
    # timed inputs: generated price tables (several keys naming the same station in one batch) and request
    # files through the real readers; the prices in force and the admissions after every step must not
    # depend on the hash seed
    from . import timed

    trng = random.Random(seed + 29)
    for i in range(max(8, count)):
        rec = timed.gen_case(trng, i)
        out.append({"world": 2000 + i,
                    "steps": [[digest(json.dumps(o["prices"], sort_keys=True)), digest(json.dumps([o["adds"], o["cancels"], o["present"]]))] for o in rec["obs"]],
                    "error": None if not rec.get("raised") else json.dumps(rec["raised"])[:200]})
    sys.stdout.write(json.dumps(out) + "\n")


if __name__ == "__main__":
    main()
