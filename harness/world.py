"""Generated scenarios built from the implementation's own classes (no CSV: the loaders are the
subject of other checks). Everything random is derived from one `random.Random`."""
from __future__ import annotations

import random
from typing import Dict, List, Optional, Tuple

import h3
import immutables

from nrel.hive.model.base import Base
from nrel.hive.model.energy.charger import Charger
from nrel.hive.model.energy.energytype import EnergyType
from nrel.hive.model.membership import Membership
from nrel.hive.model.request import Request
from nrel.hive.model.roadnetwork.haversine_roadnetwork import HaversineRoadNetwork
from nrel.hive.model.sim_time import SimTime
from nrel.hive.model.station.station import Station
from nrel.hive.model.vehicle.vehicle import Vehicle
from nrel.hive.reporting.reporter import Reporter
from nrel.hive.resources import mock_lobster as ml
from nrel.hive.runner.environment import Environment
from nrel.hive.state.driver_state.autonomous_driver_state.autonomous_available import AutonomousAvailable
from nrel.hive.state.driver_state.autonomous_driver_state.autonomous_driver_attributes import (
    AutonomousDriverAttributes,
)
from nrel.hive.state.driver_state.human_driver_state.human_driver_attributes import HumanDriverAttributes
from nrel.hive.state.driver_state.human_driver_state.human_driver_state import HumanAvailable, HumanUnavailable
from nrel.hive.state.simulation_state import simulation_state_ops
from nrel.hive.state.simulation_state.simulation_state import SimulationState
from nrel.hive.state.vehicle_state.idle import Idle

from .encode import Interner
from .record import Capture

_CONFIG = None


def base_config():
    global _CONFIG
    if _CONFIG is None:
        _CONFIG = ml.mock_config()
    return _CONFIG


CHARGERS = {
    "DCFC": Charger("DCFC", energy_type=EnergyType.ELECTRIC, rate=50.0, units="kilowatts"),
    "LEVEL_1": Charger("LEVEL_1", energy_type=EnergyType.ELECTRIC, rate=3.3, units="kilowatts"),
    "LEVEL_2": Charger("LEVEL_2", energy_type=EnergyType.ELECTRIC, rate=7.2, units="kilowatts"),
    "gas_pump": Charger("gas_pump", energy_type=EnergyType.GASOLINE, rate=10 / 60, units="gal_gasoline"),
}

FLEETS = ("fA", "fB")


def cell_palette(rng: random.Random, n_search: int = 3, per_search: int = 4, res: int = 15, search_res: int = 9) -> List[str]:
    """real H3 cells: `per_search` location cells in each of `n_search` neighbouring search cells"""
    center = h3.geo_to_h3(39.7539 + rng.uniform(-0.01, 0.01), -104.974 + rng.uniform(-0.01, 0.01), search_res)
    ring = sorted(h3.k_ring(center, 1))
    rng.shuffle(ring)
    cells: List[str] = []
    for sc in ring[:n_search]:
        lat, lon = h3.h3_to_geo(sc)
        seen = set()
        if res - search_res <= 4:
            # a small search cell: random points would mostly miss it, pick among its cells directly
            children = sorted(h3.h3_to_children(sc, res))
            seen = set(rng.sample(children, min(per_search, len(children))))
        tries = 0
        while len(seen) < per_search and tries < 200:
            tries += 1
            c = h3.geo_to_h3(lat + rng.uniform(-0.0008, 0.0008), lon + rng.uniform(-0.0008, 0.0008), res)
            if h3.h3_to_parent(c, search_res) == sc:
                seen.add(c)
        if not seen:
            seen.add(h3.h3_to_center_child(sc, res))
        cells.extend(sorted(seen))
    return cells


class World:
    """a generated environment + initial simulation state + the id interner for the Lean side"""

    def __init__(self, rng: random.Random, *, n_veh=(2, 6), n_stn=(1, 3), n_base=(1, 2), dt_choices=(1, 7, 30, 60, 90),
                 search_res: int = 9, with_ice: bool = True, with_fleets: bool = True, with_humans: bool = True,
                 queue_scenario: bool = False, base_scenario: bool = False, osm: bool = False):
        """`queue_scenario`: one public station with a single plug type and one or two plugs, every
        vehicle standing at it with a half-empty battery (C18)"""
        self.rng = rng
        self.search_res = search_res
        self.dt = rng.choice(dt_choices)
        self.cells = cell_palette(rng, search_res=search_res)
        self.net = HaversineRoadNetwork(sim_h3_resolution=15)
        self.link_ids: List[str] = []
        if osm:
            # a generated street graph (strongly connected, several speeds): routes have several links,
            # steps end inside links, positions are snapped to links
            from nrel.hive.model.roadnetwork.osm.osm_roadnetwork import OSMRoadNetwork

            from .router import gen_graph

            self.net = OSMRoadNetwork(gen_graph(rng, realistic=True), default_speed_kmph=40.0)
            links = self.net.link_helper.links
            self.link_ids = sorted(links.keys())
            cells = set()
            for _ in range(12):
                l = links[rng.choice(self.link_ids)]
                line = list(h3.h3_line(l.start, l.end))
                cells.add(rng.choice([line[0], line[-1], rng.choice(line)]))
            # a few locations beside the streets: the network snaps them to a link (entities built from
            # them stand on the snapped cell, whatever the raw cell was)
            for c in list(cells)[:4]:
                near = sorted(h3.k_ring(c, rng.choice([1, 2, 4])) - cells)
                if near:
                    cells.add(rng.choice(near))
            self.cells = sorted(cells)
        self.capture = Capture()
        reporter = Reporter()
        reporter.add_handler(self.capture)
        self.bev = ml.mock_bev(
            battery_capacity_kwh=rng.choice([40, 50, 62.5]),
            idle_kwh_per_hour=rng.choice([0.8, 1.37, 5.1]),
            nominal_watt_hour_per_mile=rng.choice([225, 261.3]),
            charge_taper_cutoff_kw=rng.choice([10, 20]),
        )
        self.ice = ml.mock_ice(
            tank_capacity_gallons=rng.choice([12.3, 15]),
            idle_gallons_per_hour=rng.choice([0.2, 0.37]),
            nominal_miles_per_gallon=rng.choice([30, 27.9]),
        )
        mechs = {"bev": self.bev}
        if with_ice:
            mechs["ice"] = self.ice
        self.schedules = {"sched_on": lambda s, v: True, "sched_off": lambda s, v: False}
        self.env = Environment(
            config=base_config(),
            reporter=reporter,
            mechatronics=immutables.Map(mechs),
            chargers=immutables.Map(CHARGERS),
            schedules=immutables.Map(self.schedules),
            fleet_ids=frozenset(FLEETS) if with_fleets else frozenset(),
        )
        self.n = Interner(search_res)
        self.n.fix("chg", list(CHARGERS.keys()))
        self.n.fix("fleet", list(FLEETS))
        self.n.fix("mech", ["bev", "ice"])
        self.n.fix("sched", list(self.schedules.keys()))

        def members() -> Membership:
            if not with_fleets:
                return Membership()
            r = rng.random()
            if r < 0.45:
                return Membership()
            if r < 0.7:
                return Membership.from_tuple(("fA",))
            if r < 0.9:
                return Membership.from_tuple(("fB",))
            return Membership.from_tuple(FLEETS)

        if queue_scenario:
            with_humans = False
            # (now and then two such stations, so that vehicles of one queue are updated between the
            #  vehicles of the other)
            n_stn = (1, 1) if rng.random() < 0.6 else (2, 2)
        if base_scenario:
            # contention for the plugs behind a base: one station with one plug of one type, one base at the
            # same place served by it with room for everybody, every vehicle standing there
            n_stn = (1, 1)
            n_base = (1, 1)
        self.base_scenario = base_scenario
        self.queue_scenario = queue_scenario
        self.members = members
        n_s = rng.randint(*n_stn)
        n_b = rng.randint(*n_base)
        n_v = rng.randint(*n_veh)
        self.station_ids = [f"s{i:03d}" for i in range(n_s)]
        self.base_ids = [f"b{i:03d}" for i in range(n_b)]
        self.vehicle_ids = [f"v{i:03d}" for i in range(n_v)]
        self.n.fix("stn", self.station_ids)
        self.n.fix("base", self.base_ids)
        self.n.fix("veh", self.vehicle_ids)
        self.req_counter = 0

        stations = []
        for sid in self.station_ids:
            kinds = rng.sample(sorted(CHARGERS.keys()), rng.randint(1, 3))
            if queue_scenario or base_scenario:
                kinds = [rng.choice(["DCFC", "LEVEL_2"])]
            chargers = immutables.Map({k: (1 if base_scenario else rng.randint(1, 2)) for k in kinds})
            on_shift = frozenset(k for k in kinds if rng.random() < 0.7)
            st = Station.build(
                station_id=sid,
                geoid=rng.choice(self.cells),
                road_network=self.net,
                chargers=chargers,
                on_shift_access=on_shift,
                membership=Membership() if (queue_scenario or base_scenario) else members(),
                env=self.env,
            )
            # non-trivial tariffs
            prices = immutables.Map({k: rng.choice([0.0, 0.13, 0.31, 1.7, -0.05]) for k in kinds})
            _, st = st.update_prices(prices)
            if rng.random() < 0.3:
                # a station whose plugs were throttled locally: its own rate, not the catalogue's, is what it delivers
                k = rng.choice(kinds)
                res = st.scale_charger_rate(k, rng.choice([0.25, 0.5, 0.8]))
                try:
                    st = res.unwrap()
                except Exception:
                    pass
            stations.append(st)
        bases = []
        for bid in self.base_ids:
            r = rng.random()
            if base_scenario:
                r = 0.0
            if r < 0.6 and stations:
                st = rng.choice(stations)
                cell, station_id = st.geoid, st.id
            elif r < 0.8 and stations:
                # a base whose station stands somewhere else
                cell, station_id = rng.choice(self.cells), rng.choice(stations).id
            else:
                cell, station_id = rng.choice(self.cells), None
            bases.append(Base.build(bid, cell, self.net, station_id, 8 if base_scenario else rng.randint(1, 2),
                                    Membership() if base_scenario else members()))
        vehicles = []
        for vid in self.vehicle_ids:
            mech = self.ice if (with_ice and rng.random() < 0.25) else self.bev
            soc = rng.choice([1.0, rng.uniform(0.2, 0.95), rng.uniform(0.0005, 0.02), 0.0, rng.uniform(0.985, 0.9995)])
            if queue_scenario:
                # (a few arrive nearly empty and may run dry while waiting)
                soc = rng.uniform(0.3, 0.9) if rng.random() < 0.8 else rng.uniform(0.001, 0.006)
                if rng.random() < 0.12:
                    soc = 1.0       # a full vehicle in a queue: its turn to charge fails every step
                elif rng.random() < 0.25:
                    # nearly full: it finishes charging within a step or two, so plugs are freed by
                    # the vehicles' own updates (in the update phase, just before the queue is served)
                    soc = rng.uniform(0.93, 0.992)
            if with_humans and rng.random() < 0.3:
                attr = HumanDriverAttributes(vid, rng.choice(["sched_on", "sched_off"]), rng.choice(self.base_ids), rng.random() < 0.3)
                driver = HumanAvailable(attr) if rng.random() < 0.6 else HumanUnavailable(attr)
            else:
                driver = AutonomousAvailable(AutonomousDriverAttributes(vid))
            pos = self.net.position_from_geoid(rng.choice(self.cells))
            if queue_scenario and rng.random() < 0.85:
                pos = stations[rng.randrange(len(stations))].position
            if base_scenario and rng.random() < 0.9:
                pos = bases[0].position
                soc = rng.uniform(0.3, 0.9)
            vehicles.append(
                Vehicle(
                    id=vid,
                    mechatronics_id=mech.mechatronics_id,
                    energy=mech.initial_energy(soc),
                    energy_expended=mech.initial_energy(0.0),
                    energy_gained=mech.initial_energy(0.0),
                    position=pos,
                    vehicle_state=Idle.build(vid),
                    driver_state=driver,
                    membership=members(),
                    total_seats=4,
                )
            )
        sim = SimulationState(
            road_network=self.net,
            sim_time=SimTime.build(rng.choice([0, 3600, 86340])),
            sim_timestep_duration_seconds=self.dt,
            sim_h3_location_resolution=15,
            sim_h3_search_resolution=search_res,
        )
        sim = simulation_state_ops.add_entities(sim, vehicles)
        sim = simulation_state_ops.add_entities(sim, stations)
        sim = simulation_state_ops.add_entities(sim, bases)
        self.sim0 = sim

    def new_request(self, sim, *, pooling: bool = False) -> Request:
        rng = self.rng
        rid = f"r{self.req_counter:04d}"
        self.req_counter += 1
        self.n.tables.setdefault("req", {})[rid] = int(rid[1:])
        o = rng.choice(self.cells)
        d = rng.choice(self.cells)
        fleet = None
        if self.env.fleet_ids and rng.random() < 0.5:
            fleet = rng.choice(sorted(self.env.fleet_ids))
        return Request.build(
            request_id=rid,
            origin=o,
            destination=d,
            road_network=self.net,
            departure_time=SimTime.build(max(0, int(sim.sim_time) - rng.choice([0, 1, 30, 100]))),
            passengers=rng.randint(1, 3),
            allows_pooling=pooling,
            fleet_id=fleet,
            value=rng.choice([0, 3.25, 11.7, 20.0]),
        )

    def mechs_cfg(self):
        from .encode import enc_mech

        return {"op": "cfg", "mechs": [enc_mech(self.n, m) for _, m in sorted(self.env.mechatronics.items())]}
