"""Iteration-site inventory, regenerated from /repo's source on every run of the C01 check.

Hash randomisation reaches a run only where a hash-ordered container (`immutables.Map`, `set`,
`frozenset`, the result of `h3.k_ring`) is *iterated*. This extractor walks the AST of every module of
`nrel/hive` (test resources excepted) and lists every syntactic iteration whose iterable is

  * a `.items()` / `.keys()` / `.values()` call on anything, or
  * a name / attribute from the list of set- or Map-typed fields (`SET_FIELDS`), or
  * a `set(...)` / `frozenset(...)` / `h3.k_ring(...)` / `.union(...)`-like expression, or a set
    comprehension / set display,

with the function it occurs in, the normalised iterable (local root names erased) and a syntactic
class:

  sorted     the iterable is consumed by `sorted(...)`, `DictOps.iterate_*`, or a sorting helper
  orderFree  the consumer cannot observe the order (`any`/`all`/`len`/`set`/`frozenset`/`dict`/
             membership test / construction of another Map / `sum` / `in`)
  raw        anything else: the order of iteration is observable by the consumer

The table is written to `lean/Hive/Gen/Sites.lean`; `Properties/C01Sites.lean` proves
(`decide +kernel`) that every regenerated site is `sorted`, `orderFree`, or one of the *reviewed* raw
sites listed there with the reason why the order cannot reach a result. A `sorted(...)` removed from
the code, `get_vehicles()` replaced by `vehicles.values()`, or a new loop over a set then fails this
obligation at the next run (a broken proof obligation: the hash-seed search decides what is reported).
"""
from __future__ import annotations

import ast
import os
from typing import Dict, List, Optional, Tuple

REPO = "/repo"
ROOT = os.path.join(REPO, "nrel", "hive")
SKIP_DIRS = ("resources",)

# fields / names that hold a hash-ordered container (Map, set, frozenset) in nrel/hive
SET_FIELDS = {
    "vehicles", "stations", "bases", "requests",
    "v_locations", "s_locations", "b_locations", "r_locations",
    "v_search", "s_search", "b_search", "r_search",
    "fleet_ids", "on_shift_access_chargers", "memberships", "applied_instructions",
    "mechatronics", "chargers", "schedules", "state", "station_ids_to_update",
}
# bare local names are judged by a shorter list (`vehicles`, `stations`, … are usually sorted tuples from `get_*()`)
SET_NAMES = {"fleet_ids", "on_shift_access_chargers", "memberships", "station_ids_to_update", "applied_instructions"}
LOCAL_SETS: set = set()      # names bound to a set / Map inside the function being visited
SET_MAKERS = {"set", "frozenset", "k_ring", "union", "intersection", "difference", "symmetric_difference", "hex_ring", "compact", "polyfill"}
VIEW_METHODS = {"items", "keys", "values"}

SORTERS = {"sorted", "iterate_vals", "iterate_items", "iterate_sim_coll", "sort"}
ORDER_FREE = {"any", "all", "len", "set", "frozenset", "dict", "Map", "sum", "bool", "Counter", "update", "isdisjoint", "issubset", "issuperset"}
ITERATORS = {"tuple", "list", "reduce", "map", "filter", "min", "max", "next", "iter", "enumerate", "zip", "first", "chain", "ft.reduce", "join",
             "head_tail", "TupleOps.head_tail"}


def _norm(e: ast.AST) -> str:
    """source of an expression with root local names erased (a renamed local does not change the key)"""

    class Erase(ast.NodeTransformer):
        def visit_Name(self, n: ast.Name):
            return n if (n.id in SET_NAMES or n.id in LOCAL_SETS) else ast.copy_location(ast.Name(id="_", ctx=n.ctx), n)

        def visit_Attribute(self, n: ast.Attribute):
            self.generic_visit(n)
            return n

        def visit_Call(self, n: ast.Call):
            # keep callee names (functions), erase argument roots
            f = n.func
            if isinstance(f, ast.Name):
                newf = f
            else:
                newf = self.visit(f)
            return ast.copy_location(ast.Call(func=newf, args=[self.visit(a) for a in n.args],
                                              keywords=[ast.keyword(arg=k.arg, value=self.visit(k.value)) for k in n.keywords]), n)

    import copy

    t = Erase().visit(copy.deepcopy(e))
    ast.fix_missing_locations(t)
    s = ast.unparse(t)
    return " ".join(s.split())[:120]


def _callee(c: ast.Call) -> str:
    f = c.func
    if isinstance(f, ast.Name):
        return f.id
    if isinstance(f, ast.Attribute):
        return f.attr
    return ""


def is_hashed(e: ast.AST) -> bool:
    """does this expression evaluate to (a view of) a hash-ordered container, syntactically?"""
    if isinstance(e, ast.Call):
        name = _callee(e)
        if isinstance(e.func, ast.Attribute) and name in VIEW_METHODS and not e.args:
            return True
        if name in SET_MAKERS:
            return True
        return False
    if isinstance(e, (ast.Set, ast.SetComp)):
        return True
    if isinstance(e, ast.Attribute):
        return e.attr in SET_FIELDS
    if isinstance(e, ast.Name):
        return e.id in SET_NAMES or e.id in LOCAL_SETS
    return False


class Visitor(ast.NodeVisitor):
    def __init__(self, module: str):
        self.module = module
        self.scope: List[str] = []
        self.parents: Dict[int, ast.AST] = {}
        self.sites: List[Tuple[str, str, str, str]] = []   # (module, function, iterable, class)

    # -- scopes
    def _scoped(self, node):
        self.scope.append(node.name)
        self.generic_visit(node)
        self.scope.pop()

    def _function(self, node):
        # local names bound to a hash-ordered value inside this function: `x = set(...)`, `x = a.difference(b)`,
        # `x: Set[...] = ...`, `x: FrozenSet[...]`, `x: immutables.Map[...]`
        added = []
        for n in ast.walk(node):
            tgt, val, ann = None, None, None
            if isinstance(n, ast.Assign) and len(n.targets) == 1 and isinstance(n.targets[0], ast.Name):
                tgt, val = n.targets[0].id, n.value
            elif isinstance(n, ast.AnnAssign) and isinstance(n.target, ast.Name):
                tgt, val, ann = n.target.id, n.value, ast.unparse(n.annotation)
            if tgt is None:
                continue
            hashed = (val is not None and is_hashed(val) and not (isinstance(val, ast.Call) and _callee(val) in VIEW_METHODS)) or (
                ann is not None and any(ann.startswith(t) or ("[" + t) in ann for t in ("Set[", "FrozenSet[", "frozenset", "set[", "immutables.Map", "Map[")))
            if hashed and tgt not in LOCAL_SETS:
                LOCAL_SETS.add(tgt)
                added.append(tgt)
        self._scoped(node)
        for t in added:
            LOCAL_SETS.discard(t)

    visit_FunctionDef = _function
    visit_AsyncFunctionDef = _function
    visit_ClassDef = _scoped

    def fn(self) -> str:
        return ".".join(self.scope) or "<module>"

    def add(self, iterable: ast.AST, cls: str):
        self.sites.append((self.module, self.fn(), _norm(iterable), cls))

    # -- the consumer of an expression: walk up through the parents
    def classify(self, e: ast.AST) -> Optional[str]:
        """class of the consumer of hashed expression `e`; None = not iterated here (stored, passed on, tested)"""
        p = self.parents.get(id(e))
        if p is None:
            return None
        if isinstance(p, ast.Call):
            name = _callee(p)
            if name == "reduce" and not (len(p.args) > 1 and p.args[1] is e):
                return None        # the function or the initial value of a fold, not the thing folded over
            if name in ("map", "filter") and p.args and p.args[0] is e:
                return None
            if e in p.args or any(k.value is e for k in p.keywords):
                if name in SORTERS:
                    return "sorted"
                if name in ORDER_FREE:
                    return "orderFree"
                if name in ITERATORS or (isinstance(p.func, ast.Attribute) and ast.unparse(p.func) in ITERATORS):
                    # tuple(x) / list(x) / map(f, x) / filter(f, x) keep the order: look at *their* consumer
                    if name in ("tuple", "list", "map", "filter", "enumerate", "iter", "chain", "zip"):
                        up = self.classify(p)
                        return up if up in ("sorted", "orderFree") else "raw"
                    return "raw"
                return None        # passed to some other function: the iteration, if any, is in that function
            return None
        if isinstance(p, ast.comprehension) and p.iter is e:
            comp = self.parents.get(id(p))
            if isinstance(comp, (ast.SetComp, ast.DictComp)):
                return "orderFree"
            if isinstance(comp, (ast.GeneratorExp, ast.ListComp)):
                up = self.classify(comp)
                return up if up in ("sorted", "orderFree") else "raw"
            return "raw"
        if isinstance(p, (ast.For, ast.AsyncFor)) and p.iter is e:
            return "raw"
        if isinstance(p, ast.Starred):
            return "raw"
        if isinstance(p, ast.Compare):
            return None            # membership test
        if isinstance(p, ast.Subscript) and p.value is e:
            return None
        return None

    def generic_visit(self, node):
        for child in ast.iter_child_nodes(node):
            self.parents[id(child)] = node
        super().generic_visit(node)

    def visit(self, node):
        if isinstance(node, ast.expr) and is_hashed(node):
            cls = self.classify(node)
            if cls is not None:
                self.add(node, cls)
        return super().visit(node)


def extract() -> List[Tuple[str, str, str, str]]:
    out: List[Tuple[str, str, str, str]] = []
    for d, dirs, files in os.walk(ROOT):
        dirs[:] = sorted(x for x in dirs if x not in SKIP_DIRS and x != "__pycache__")
        for f in sorted(files):
            if not f.endswith(".py"):
                continue
            path = os.path.join(d, f)
            mod = os.path.relpath(path, os.path.join(REPO, "nrel", "hive"))[:-3].replace(os.sep, ".")
            try:
                tree = ast.parse(open(path, encoding="utf-8").read())
            except SyntaxError:
                continue
            v = Visitor(mod)
            v.parents[id(tree)] = None  # type: ignore
            v.visit(tree)
            out += v.sites
    # a table, not a multiset: the same (function, iterable, class) twice is one site
    return sorted(set(out))


def lean_str(s: str) -> str:
    return '"' + s.replace("\\", "\\\\").replace('"', '\\"') + '"'


def render(sites: List[Tuple[str, str, str, str]]) -> str:
    lines = [
        "/-  REGENERATED by harness/sites.py from /repo/nrel/hive on every run of the C01 check - do not edit.",
        "    One entry per syntactic iteration over a hash-ordered container. -/",
        "import Hive.SiteTypes",
        "",
        "namespace Hive.Gen",
        "open Hive.SiteCls",
        "",
        "def sites : List Hive.Site := [",
    ]
    body = []
    for m, f, it, c in sites:
        body.append(f"  ⟨{lean_str(m)}, {lean_str(f)}, {lean_str(it)}, .{c}⟩")
    lines.append(",\n".join(body))
    lines += ["]", "", "end Hive.Gen", ""]
    return "\n".join(lines)


def regenerate(lean_dir: str) -> Dict[str, int]:
    sites = extract()
    text = render(sites)
    path = os.path.join(lean_dir, "Hive", "Gen", "Sites.lean")
    os.makedirs(os.path.dirname(path), exist_ok=True)
    old = open(path, encoding="utf-8").read() if os.path.exists(path) else None
    if old != text:
        tmp = path + f".{os.getpid()}.tmp"
        open(tmp, "w", encoding="utf-8").write(text)
        os.replace(tmp, path)
    counts: Dict[str, int] = {}
    for s in sites:
        counts[s[3]] = counts.get(s[3], 0) + 1
    counts["total"] = len(sites)
    counts["rewritten"] = int(old != text)
    return counts


def uncovered(lean_dir: str) -> List[str]:
    """raw sites of today's source that the reviewed list of Properties/C01Sites.lean does not contain, and
    anchors / reviewed entries that are gone (computed textually, for the replay file only: the
    deciding check is the Lean build)"""
    try:
        text = open(os.path.join(lean_dir, "Properties", "C01Sites.lean"), encoding="utf-8").read()
    except OSError:
        return ["Properties/C01Sites.lean missing"]
    sites = extract()
    have = {f"⟨{lean_str(m)}, {lean_str(f)}, {lean_str(it)}, .{c}⟩" for m, f, it, c in sites}
    out = []
    for m, f, it, c in sites:
        row = f"⟨{lean_str(m)}, {lean_str(f)}, {lean_str(it)}, .{c}⟩"
        if c == "raw" and row not in text:
            out.append(f"new raw iteration: nrel/hive/{m.replace('.', '/')}.py  {f}  over  {it}")
    import re as _re

    for row in _re.findall(r"⟨\"[^⟩]*⟩", text):
        if row not in have:
            out.append(f"listed in C01Sites but no longer in the source (or its class changed): {row}")
    return out


if __name__ == "__main__":
    import sys

    ss = extract()
    for s in ss:
        if len(sys.argv) < 2 or s[3] == sys.argv[1]:
            print(s)
    print(len(ss), {c: sum(1 for s in ss if s[3] == c) for c in ("sorted", "orderFree", "raw")})
